#!/usr/bin/env python3
"""Run the repository's baseline test suite (guard off) and compare with /root/.vp/BASELINE.json."""
import json, subprocess, sys, os
env = dict(os.environ, GOFLAGS="-mod=mod", GOPROXY="off", GOSUMDB="off", GOTOOLCHAIN="local")
repo = sys.argv[1] if len(sys.argv) > 1 else "/repo"
p = subprocess.run(["go", "test", "-json", "-vet=off", "-count=1", "-timeout", "25m", "./..."], cwd=repo, env=env, capture_output=True, text=True)
passed = set()
for line in p.stdout.splitlines():
    try:
        e = json.loads(line)
    except Exception:
        continue
    if e.get("Action") == "pass" and e.get("Test"):
        passed.add(e["Package"] + "::" + e["Test"])
base = set(json.load(open("/root/.vp/BASELINE.json"))["stable_pass"])
missing = sorted(base - passed)
print("baseline %d, passed now %d, missing %d" % (len(base), len(passed & base), len(missing)))
for m in missing:
    print("  MISSING", m)
sys.exit(1 if missing else 0)
