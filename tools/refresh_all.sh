#!/bin/bash
# Re-run every registered quick check on /repo's working tree (must be clean of seeded patches) and validate evidence + MANIFEST.
cd "$(dirname "$0")/.."
if [ -n "$(git -C /repo status --porcelain)" ]; then echo "warning: /repo has uncommitted changes" >&2; fi
rc=0
for id in $(python3 -c "import json; print(' '.join(c['property_id'] for c in json.load(open('MANIFEST.json'))['checks']))"); do
  out=$(./check $id --tier quick 2>&1); r=$?
  echo "$out" | tail -1
  [ $r -ne 0 ] && { rc=1; echo "$out" | grep -E "^VIOLATION|ENGINE" | head -5; }
done
python3-vt - <<'PY' || rc=1
import json,jsonschema
m=json.load(open('MANIFEST.json'))
jsonschema.validate(m,json.load(open('/root/.vp/MANIFEST.schema.json')))
es=json.load(open('/root/.vp/EVIDENCE.schema.json'))
for c in m['checks']:
    e=json.load(open(c['evidence_file'])); jsonschema.validate(e,es)
    cov=e['coverage']
    assert cov['obligations']==cov['discharged'], (c['property_id'],cov['obligations'],cov['discharged'])
    assert e['violations']==0, c['property_id']
print('manifest and evidence valid for', [c['property_id'] for c in m['checks']])
PY
# the replay oracles must all pass on the tree as it is
tools/replay_selfcheck.sh > /dev/null 2>&1 || { echo 'replay self-check FAILED'; rc=1; }
# reliance audit: every callee postcondition assumed at a call site is discharged by some check
bin/govc audit 2>/dev/null > reliance_audit.txt || rc=1
tail -1 reliance_audit.txt
exit $rc
