#!/bin/bash
# usage: tools/keep_seeded.sh <PROPERTY> <agent-dir> <demo-kind> [demo-run-pattern] [name]
#   demo-kind: dropin:<relative dir in repo>  (demo_test.go is copied into that package directory)
#              module                          (agent-dir/demo is a module with `replace github.com/dave/dst => <path>`)
# Confirms in a scratch worktree that the patch applies, compiles, keeps the 109 baseline tests green, that the
# demonstration fails with the patch and passes without it, runs the property's check against the patched tree,
# and stores everything under /verif/seeded/<name>/.
set -u
ID=$1; AG=$2; KIND=$3; PAT=${4:-.}; NAME=${5:-$ID}
V=$(cd "$(dirname "$0")/.." && pwd)
export GOFLAGS=-mod=mod GOPROXY=off GOSUMDB=off GOTOOLCHAIN=local
W=$(mktemp -d /tmp/seedchk.XXXXXX)
git -C /repo worktree add -q --detach "$W/wt" HEAD
cleanup() { git -C /repo worktree remove --force "$W/wt" 2>/dev/null; rm -rf "$W"; }
trap cleanup EXIT
rundemo() { # $1 = tree
  case "$KIND" in
    dropin:*) d=${KIND#dropin:}; cp "$AG/demo_test.go" "$1/$d/zz_seeded_demo_test.go"; (cd "$1/$d" && go test -vet=off -count=1 -timeout 120s -run "$PAT" . >"$W/demo.out" 2>&1); rc=$?; rm -f "$1/$d/zz_seeded_demo_test.go"; return $rc;;
    module) rm -rf "$W/demo"; cp -r "$AG/demo" "$W/demo"; sed -i "s#=> /tmp/wt-[A-Za-z0-9-]*#=> $1#" "$W/demo/go.mod"; cp /repo/go.sum "$W/demo/go.sum" 2>/dev/null; (cd "$W/demo" && go test -vet=off -count=1 -timeout 120s -run "$PAT" ./... >"$W/demo.out" 2>&1); return $?;;
  esac
}
rundemo "$W/wt"; before=$?
cp "$W/demo.out" "$W/demo_before.txt"
if ! git -C "$W/wt" apply "$AG/patch.diff"; then echo "PATCH DOES NOT APPLY"; exit 2; fi
(cd "$W/wt" && go build ./... ) || { echo "DOES NOT COMPILE"; exit 2; }
base=$("$V/tools/baseline.py" "$W/wt" | head -1)
rundemo "$W/wt"; after=$?
cp "$W/demo.out" "$W/demo_after.txt"
echo "baseline with patch: $base"
echo "demo without patch: exit $before; with patch: exit $after"
# the tree the check sees must carry the contract files (they are part of /repo HEAD already)
out=$(GOVC_REPO="$W/wt" GOVC_OUTROOT="$W/out" "$V/bin/govc" check "$ID" --tier quick 2>&1); rc=$?
echo "check $ID on patched tree: exit $rc"; echo "$out" | grep '^VIOLATION' | sed 's/replay=[^ ]* //' | head -5
mkdir -p "$V/seeded/$NAME"
[ "$(readlink -f "$AG")" != "$(readlink -f "$V/seeded/$NAME")" ] && cp "$AG/patch.diff" "$V/seeded/$NAME/patch.diff"
[ "$(readlink -f "$AG")" != "$(readlink -f "$V/seeded/$NAME")" ] && [ -f "$AG/demo_test.go" ] && cp "$AG/demo_test.go" "$V/seeded/$NAME/demo_test.go"
[ -d "$AG/demo" ] && [ "$(readlink -f "$AG")" != "$(readlink -f "$V/seeded/$NAME")" ] && { rm -rf "$V/seeded/$NAME/demo"; cp -r "$AG/demo" "$V/seeded/$NAME/demo"; }
[ "$(readlink -f "$AG")" != "$(readlink -f "$V/seeded/$NAME")" ] && [ -f "$AG/notes.md" ] && cp "$AG/notes.md" "$V/seeded/$NAME/notes.md"
python3 - "$ID" "$NAME" "$KIND" "$PAT" "$base" "$before" "$after" "$rc" "$out" <<'PY'
import json,sys
pid,name,kind,pat,base,before,after,rc,out=sys.argv[1:10]
viol=[l.split('obligation=')[-1].split('unit=')[-1] for l in out.splitlines() if l.startswith('VIOLATION')]
meta={"property":pid,"demo_kind":kind,"demo_run_pattern":pat,
 "confirmed":{"baseline_with_patch":base,"demo_exit_without_patch":int(before),"demo_exit_with_patch":int(after)},
 "check":{"command":"GOVC_REPO=<scratch worktree with patch> bin/govc check %s --tier quick"%pid,"exit":int(rc),"violations":viol[:10]},
 "needs_to_manifest":"see notes.md"}
json.dump(meta,open('/verif/seeded/%s/meta.json'%name,'w'),indent=1)
print("kept" if (int(before)==0 and int(after)!=0) else "NOT CONFIRMED (demo must pass without and fail with the patch)")
PY
