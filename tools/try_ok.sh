#!/bin/bash
# usage: tools/try_ok.sh <PROPERTY> <patch> [more properties...]
# Applies a (supposedly behaviour-preserving) patch to a scratch worktree of /repo, confirms it builds and keeps the
# baseline tests green, and runs the property's quick check against the patched tree. Prints ALARM lines if the check
# reports anything: on a harmless patch every such line is a false alarm.
set -u
ID=$1; PATCH=$2; shift 2
V=$(cd "$(dirname "$0")/.." && pwd)
export GOFLAGS=-mod=mod GOPROXY=off GOSUMDB=off GOTOOLCHAIN=local
W=$(mktemp -d /tmp/okchk.XXXXXX)
git -C /repo worktree add -q --detach "$W/wt" HEAD
cleanup() { git -C /repo worktree remove --force "$W/wt" 2>/dev/null; rm -rf "$W"; }
trap cleanup EXIT
if ! git -C "$W/wt" apply "$PATCH"; then echo "PATCH DOES NOT APPLY"; exit 2; fi
(cd "$W/wt" && go build ./... ) || { echo "DOES NOT COMPILE"; exit 2; }
echo "baseline with patch: $("$V/tools/baseline.py" "$W/wt" | head -1)"
for P in "$ID" "$@"; do
  out=$(GOVC_REPO="$W/wt" GOVC_OUTROOT="$W/out" GOVC_NO_REPLAY=1 "$V/bin/govc" check "$P" --tier quick 2>&1); rc=$?
  echo "check $P on patched tree: exit $rc"
  echo "$out" | grep '^VIOLATION' | sed 's/replay=[^ ]* //; s/^VIOLATION/ALARM/' | head -6
done
