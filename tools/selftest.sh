#!/bin/bash
# usage: tools/selftest.sh <PROPERTY> [patch...]
# Applies each must-fail patch (and each ok-*.patch, a harmless refactoring that must NOT alarm) of selftest/<PROPERTY>/ to a scratch copy of /repo and requires the
# property's check to report a violation there. Prints one line per patch; exit 0 iff all are killed.
set -u
V=$(cd "$(dirname "$0")/.." && pwd)
ID=$1; shift
export GOFLAGS=-mod=mod GOPROXY=off GOSUMDB=off GOTOOLCHAIN=local
patches=("$@")
[ ${#patches[@]} -eq 0 ] && patches=("$V"/selftest/"$ID"/*.patch)
survivors=0
for p in "${patches[@]}"; do
  [ -f "$p" ] || continue
  d=$(mktemp -d /tmp/govc-selftest.XXXXXX)
  rsync -a --exclude .git /repo/ "$d/repo/"
  if ! (cd "$d/repo" && patch -p1 -s < "$p"); then echo "BROKEN-PATCH $(basename "$p")"; rm -rf "$d"; survivors=$((survivors+1)); continue; fi
  if ! (cd "$d/repo" && go build ./... >/dev/null 2>&1); then echo "DOES-NOT-COMPILE $(basename "$p")"; rm -rf "$d"; survivors=$((survivors+1)); continue; fi
  out=$(GOVC_REPO="$d/repo" GOVC_OUTROOT="$d/out" "$V/bin/govc" check "$ID" --tier quick 2>&1); rc=$?
  case "$(basename "$p")" in ok-*)
    # semantics-preserving change: the check must stay quiet
    if [ $rc -eq 0 ]; then echo "QUIET-AS-REQUIRED $(basename "$p")"; else echo "FALSE-ALARM $(basename "$p") (exit $rc): $(echo "$out" | grep '^VIOLATION' | head -2)"; survivors=$((survivors+1)); fi
    rm -rf "$d"; continue;;
  esac
  if [ $rc -eq 1 ]; then
    echo "KILLED $(basename "$p"): $(echo "$out" | grep -c '^VIOLATION') violation(s), first: $(echo "$out" | grep '^VIOLATION' | head -1 | sed 's/.*obligation=//; s/.*unit=/unit=/')"
  else
    echo "SURVIVED $(basename "$p") (exit $rc)"; survivors=$((survivors+1))
  fi
  rm -rf "$d"
done
exit $((survivors > 0))
