#!/bin/bash
# Runs every replay oracle on every node type against /repo as it is: all must pass (an oracle that
# fails on the unchanged tree would report false failing inputs).
set -u
V=$(cd "$(dirname "$0")/.." && pwd)
export GOFLAGS=-mod=mod GOPROXY=off GOSUMDB=off GOTOOLCHAIN=local
REPO=${GOVC_REPO:-/repo}
T=$(mktemp -d /tmp/govc-replaycheck.XXXXXX); trap 'rm -rf "$T"' EXIT
rc=0
run() { # part pkgdir kind case
  cat "$V/replay/$1" "$V/replay/canon.go.part" > "$T/zz_govc_replay_test.go"
  printf '{"Replace": {"%s/%s/zz_govc_replay_test.go": "%s/zz_govc_replay_test.go"}}' "$REPO" "$2" "$T" > "$T/ov.json"
  pkg="./$2/"; [ "$2" = "." ] && pkg="."
  out=$(cd "$REPO" && GOVC_REPLAY_KIND=$3 GOVC_REPLAY_CASE="$4" go test -overlay "$T/ov.json" -vet=off -count=1 -timeout 120s -run '^TestZZGovcReplay$' $pkg 2>&1); r=$?
  nf=$(echo "$out" | grep -c '^REPLAY-FAIL')
  echo "$3 $4: exit $r, $nf failures"
  if [ $r -ne 0 ] || [ $nf -ne 0 ]; then rc=1; echo "$out" | grep -v '^REPLAY-INPUT' | head -20; fi
}
run dst_test.go.part . clone '*'
run dst_test.go.part . walk '*'
run dstutil_test.go.part dstutil accessor '*'
run decorator_test.go.part decorator restore '*'
run decorator_test.go.part decorator helpers applyDecorations
run dstutil_test.go.part dstutil cursor apply
run decorator_test.go.part decorator graph objects
run decorator_test.go.part decorator errors resolvers
run decorator_test.go.part decorator save save
run decorator_test.go.part decorator imports imports
run decorator_test.go.part decorator attach comments
for op in Append Prepend Replace Clear All; do run dst_test.go.part . declist $op; done
exit $rc
