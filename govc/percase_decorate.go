package main

// Per-case obligations for decorateNode (decorator-node-generated.go): node maps (C11), field
// correspondence (C03), error propagation and frame (C17).

import (
	"fmt"
	"go/types"
	"sort"
	"strings"
)

func fd(name string) string { return pkgDecorator + ".(*fileDecorator)." + name }

// decorateFieldConds: obligations relating ast node `in` (*ast.T) and its dst node `out` (*dst.T).
func decorateFieldConds(p *Program, dt, at *types.Named, in, out, prefix string, consulted map[string]bool) [][2]string {
	nodeIface := nodeIfaceOf(p, pkgDst)
	st := dt.Underlying().(*types.Struct)
	var conds [][2]string
	for i := 0; i < st.NumFields(); i++ {
		f := st.Field(i)
		if f.Name() == "Decs" {
			continue
		}
		aft, _ := fieldType(at, f.Name())
		inF, outF := in+"."+f.Name(), out+"."+f.Name()
		label := prefix + f.Name()
		if aft == nil {
			switch dt.Obj().Name() + "." + f.Name() {
			case "BadDecl.Length", "BadExpr.Length", "BadStmt.Length":
				conds = append(conds, [2]string{label, fmt.Sprintf("%s == %s.To - %s.From", outF, in, in)})
			}
			continue
		}
		switch classifyField(f, nodeIface) {
		case fcNodeIface, fcNodePtr:
			conds = append(conds, [2]string{label, fmt.Sprintf("%s == nil ? %s == nil : (has(f.Dst.Nodes, %s) && f.Dst.Nodes[%s] == %s)", inF, outF, inF, inF, outF)})
			if classifyField(f, nodeIface) == fcNodePtr && prefix == "" {
				inline := false
				for c := range consulted {
					if strings.HasPrefix(c, f.Name()+".") {
						inline = true
					}
				}
				if inline {
					cdt := f.Type().Underlying().(*types.Pointer).Elem().(*types.Named)
					if cat := p.astNamed(cdt.Obj().Name()); cat != nil {
						for _, c := range decorateFieldConds(p, cdt, cat, inF, outF, label+".", consulted) {
							conds = append(conds, [2]string{c[0], fmt.Sprintf("%s != nil ==> (%s)", inF, c[1])})
						}
					}
				}
			}
		case fcListIface, fcListPtr:
			if dt.Obj().Name()+"."+f.Name() == "File.Unresolved" {
				continue // never populated: identifier-resolution data the decorator does not carry
			}
			conds = append(conds, [2]string{label + ".len", fmt.Sprintf("len(%s) == len(%s)", outF, inF)})
			conds = append(conds, [2]string{label + ".elems", fmt.Sprintf("forall i int :: 0 <= i && i < len(%s) ==> has(f.Dst.Nodes, %s[i]) && f.Dst.Nodes[%s[i]] == %s[i]", inF, inF, inF, outF)})
		case fcObject:
			// C18: the counterpart through the object / scope map
			m := "f.Dst.Objects"
			if strings.HasSuffix(f.Type().String(), "Scope") {
				m = "f.Dst.Scopes"
			}
			conds = append(conds, [2]string{"graph!" + label, fmt.Sprintf("%s == nil ? %s == nil : has(%s, %s) && %s[%s] == %s", inF, outF, m, inF, m, inF, outF)})
		case fcMap:
			if f.Name() == "Imports" {
				conds = append(conds, [2]string{"graph!" + label + ".names", fmt.Sprintf("forall k string :: has(%s, k) == has(%s, k)", outF, inF)})
				conds = append(conds, [2]string{"graph!" + label + ".members", fmt.Sprintf("forall k string :: has(%s, k) && %s[k] != nil ==> has(f.Dst.Objects, %s[k]) && %s[k] == f.Dst.Objects[%s[k]]", inF, inF, inF, outF, inF)})
			}
		case fcValue, fcOther:
			switch {
			case sortOfSafe(f.Type()) == SBool && isTokenPos(aft):
				conds = append(conds, [2]string{label + ".flag", fmt.Sprintf("%s == (%s != 0)", outF, inF)})
			case sortOfSafe(f.Type()) == sortOfSafe(aft) && sortOfSafe(aft) != "" && sortOfSafe(aft) != "struct":
				conds = append(conds, [2]string{label, fmt.Sprintf("%s == %s", outF, inF)})
			}
		}
	}
	return conds
}

func decorateNodeOpts(p *Program, nt nodeType) *UnitOpts {
	key := fd("decorateNode")
	at := p.astNamed(nt.Name)
	ant := nodeType{nt.Name, at, types.NewPointer(at)}
	opts := caseOpts("n", ant, "ast")
	opts.Trace = true
	consulted := p.consultedPaths(key, ant)
	opts.AtBackEdge = func(ex *Exec, frm *frame, lr *loopRec, edge int, g string, st *State) {
		errorsNotDroppedByContinuing(ex, frm, lr, edge, "decorateNode/"+nt.Name, g)
	}
	opts.AtExit = func(ex *Exec, frm *frame, g string, st *State, res []Val) {
		if len(res) != 2 {
			return
		}
		name := "decorateNode/" + nt.Name
		fv, nv := frm.params["f"], frm.params["n"]
		envAt := func(s *State) *SpecEnv {
			env := &SpecEnv{ex: ex, vars: map[string]Val{}, cur: s, old: frm.entry, pkg: frm.fn.Pkg.Pkg}
			env.vars["f"], env.vars["n"] = fv, nv
			env.vars["result"], env.vars["err"] = res[0], res[1]
			env.vars["$in"] = Val{T: iRef(nv.T), Typ: ant.Ptr}
			env.vars["$out"] = Val{T: iRef(res[0].T), Typ: nt.Ptr}
			return env
		}
		exitEnv := envAt(st)
		dstPtrID := ex.u.typeID(nt.Ptr)
		normal := fmt.Sprintf("err == nil && !old(has(f.Dst.Nodes, n)) && typeof(result) == %d", dstPtrID)
		// --- C03: fields ---
		for _, c := range decorateFieldConds(p, nt.Named, at, "$in", "$out", "", consulted) {
			if nt.Name == "FuncDecl" && c[0] == "Type.Func.flag" {
				continue // a declaration always has the keyword: out.Type.Func is set to true
			}
			if strings.HasPrefix(c[0], "graph!") {
				ex.obligeSpec(exitEnv, name+"#graph:"+c[0][6:], "schema", g, normal+" ==> ("+c[1]+")", nil)
				continue
			}
			ex.obligeSpec(exitEnv, name+"#fields:"+c[0], "schema", g, normal+" ==> ("+c[1]+")", nil)
		}
		if nt.Name != "Package" {
			ex.obligeSpec(exitEnv, name+"#fields:Decs.Before", "schema", g, normal+" ==> $out.Decs.Before == f.before[n]", nil)
			ex.obligeSpec(exitEnv, name+"#fields:Decs.After", "schema", g, normal+" ==> $out.Decs.After == f.after[n]", nil)
		}
		// --- events: C11 registration before recursion, created nodes mapped; C17 error propagation ---
		nRec, nErr := 0, 0
		nAlloc := map[string]int{}
		nodeD := nodeIfaceOf(p, pkgDst)
		errCallees := map[string]bool{fd("decorateNode"): true, fd("decorateObject"): true, fd("decorateScope"): true, fd("decorateSelectorExpr"): true, fd("resolvePath"): true}
		for i := range ex.trace {
			ev := &ex.trace[i]
			switch ev.Kind {
			case "call":
				if ev.Depth != 0 {
					continue
				}
				if ev.Callee == fd("decorateNode") {
					nRec++
					ex.obligeSpec(envAt(ev.St), fmt.Sprintf("%s#maps:registered_before_recursion@%d", name, nRec), "schema", ev.Guard, "has(f.Dst.Nodes, n)", nil)
				}
				if errCallees[ev.Callee] && ev.Res != nil && len(ev.Res.Tuple) == 2 {
					nErr++
					ce := ev.Res.Tuple[1].T
					short := ev.Callee[strings.LastIndex(ev.Callee, ".")+1:]
					ex.oblige(fmt.Sprintf("%s#errors:propagated:%s@%d", name, short, nErr), "schema", and(g, ev.Guard, not(eq(ce, nilIface))),
						and(eq(res[1].T, ce), eq(res[0].T, nilIface)), "an error returned by the callee is returned unchanged, with a nil node", ex.pos(ev.Instr.Pos()))
				}
			case "alloc":
				pt := types.NewPointer(ev.Typ)
				nm, ok := ev.Typ.(*types.Named)
				if !ok || nm.Obj().Pkg() == nil || nm.Obj().Pkg().Path() != pkgDst || !types.Implements(pt, nodeD) {
					continue
				}
				nAlloc[nm.Obj().Name()]++
				keyT := mkI(intLit(int64(ex.u.typeID(pt))), ev.Val.T)
				env := exitEnv.bind("$a", Val{T: keyT, Typ: types.NewInterfaceType(nil, nil)})
				ex.obligeSpec(env, fmt.Sprintf("%s#maps:created_node_mapped:%s@%d", name, nm.Obj().Name(), nAlloc[nm.Obj().Name()]), "schema", and(g, ev.Guard), "err == nil ==> hasAst(f, $a)", nil)
			}
		}
	}
	return opts
}

func buildDecorateNode(p *Program, tier string) ([]*Unit, []UnitError) {
	key := fd("decorateNode")
	var units []*Unit
	var errs []UnitError
	nts := p.nodeTypes(pkgDst)
	sort.Slice(nts, func(i, j int) bool { return nts[i].Name < nts[j].Name })
	for _, nt := range nts {
		name := "decorateNode/" + nt.Name
		if !wantUnit(name) {
			continue
		}
		if p.astNamed(nt.Name) == nil {
			continue
		}
		u, err := p.verifyFunc(key, decorateNodeOpts(p, nt))
		if err != nil {
			errs = append(errs, UnitError{name, err.Error()})
			continue
		}
		units = append(units, u)
	}
	return units, errs
}
