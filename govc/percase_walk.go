package main

// C13: Walk's per-type child sequence against go/ast's Walk (reference extracted by the same pipeline).

import (
	"fmt"
	"go/token"
	"go/types"
	"strings"

	"golang.org/x/tools/go/ssa"
)

type walkEv struct {
	K       string // Visit, Child, List
	Field   string // n.F -> "F"; Visit: argument text
	Guarded bool   // call under `if n.F != nil`
	Visitor string // text of the visitor argument
}

func (w walkEv) String() string {
	g := ""
	if w.Guarded {
		g = "?"
	}
	return w.K + "(" + w.Field + g + ")"
}

// loopRangeSrc: text of the slice a range-over-slice loop iterates (n.List).
func loopRangeSrc(h *ssa.BasicBlock) string {
	for _, in := range h.Instrs {
		if nx, ok := in.(*ssa.Next); ok {
			if rg, ok := nx.Iter.(*ssa.Range); ok {
				if ld, ok := rg.X.(*ssa.UnOp); ok {
					if t, ok := addrText(ld.X); ok {
						return t // range over a map (Package.Files)
					}
				}
			}
		}
	}
	iff, ok := h.Instrs[len(h.Instrs)-1].(*ssa.If)
	if !ok {
		return ""
	}
	cond, ok := iff.Cond.(*ssa.BinOp)
	if !ok {
		return ""
	}
	call, ok := cond.Y.(*ssa.Call)
	if !ok {
		return ""
	}
	if b, ok := call.Call.Value.(*ssa.Builtin); !ok || b.Name() != "len" {
		return ""
	}
	ld, ok := call.Call.Args[0].(*ssa.UnOp)
	if !ok {
		return ""
	}
	if t, ok := addrText(ld.X); ok {
		return t
	}
	if a, ok := ld.X.(*ssa.Alloc); ok {
		return a.Comment
	}
	return ""
}

// nilGuarded: the instruction executes only when `text != nil` held (an enclosing if on that field).
func nilGuarded(in ssa.Instruction, text string) bool {
	b := in.Block()
	for d := b.Idom(); d != nil; d = d.Idom() {
		iff, ok := d.Instrs[len(d.Instrs)-1].(*ssa.If)
		if !ok {
			continue
		}
		cond, ok := iff.Cond.(*ssa.BinOp)
		if !ok || (cond.Op != token.NEQ && cond.Op != token.EQL) {
			continue
		}
		var other ssa.Value
		if argText(cond.X) == text {
			other = cond.Y
		} else if argText(cond.Y) == text {
			other = cond.X
		} else {
			continue
		}
		if c, ok := other.(*ssa.Const); !ok || c.Value != nil {
			continue
		}
		branch := 0
		if cond.Op == token.EQL {
			branch = 1
		}
		if len(d.Succs) == 2 && d.Succs[branch].Dominates(b) && d.Succs[branch] != d.Succs[1-branch] {
			return true
		}
	}
	return false
}

// walkTape: the static visit sequence of one Walk case from the recorded call events.
func walkTape(ex *Exec, fn *ssa.Function, walkKey, visitKey string) []walkEv {
	loopsOf := map[*ssa.Function]map[*ssa.BasicBlock]map[*ssa.BasicBlock]bool{}
	var out []walkEv
	for _, ev := range ex.trace {
		// depth 1: the per-type switch may sit in a helper that Walk calls (inlined, it has no contract of its own)
		if ev.Kind != "call" || ev.Depth > 1 || ev.Instr == nil {
			continue
		}
		pf := ev.Instr.Parent()
		if pf == nil || (ev.Depth == 1 && (pf.Pkg != fn.Pkg || pf.Parent() != nil)) {
			continue
		}
		loops, ok := loopsOf[pf]
		if !ok {
			_, back := blockOrder(pf)
			loops = findLoops(pf, back)
			loopsOf[pf] = loops
		}
		var args []ssa.Value
		switch c := ev.Instr.(type) {
		case *ssa.Call:
			args = c.Call.Args
			if c.Call.IsInvoke() {
				args = append([]ssa.Value{c.Call.Value}, args...)
			}
		default:
			continue
		}
		switch {
		case ev.Callee == visitKey:
			out = append(out, walkEv{K: "Visit", Field: argText(args[1]), Visitor: argText(args[0])})
		case ev.Callee == walkKey:
			src := argText(args[1])
			k := "Child"
			if !strings.Contains(src, ".") {
				// an element of a list being ranged over
				best, bestN := "", -1
				for h, body := range loops {
					if body[ev.Instr.Block()] && (bestN < 0 || len(body) < bestN) {
						s := loopRangeSrc(h)
						if s == "" {
							s = indexLoopSrc(h, body, args[1])
						}
						if s != "" {
							best, bestN = s, len(body)
						}
					}
				}
				if best != "" {
					src, k = best, "List"
				}
			}
			f := src[strings.LastIndex(src, ".")+1:]
			out = append(out, walkEv{K: k, Field: f, Guarded: k == "Child" && nilGuarded(ev.Instr, src), Visitor: argText(args[0])})
		case strings.Contains(ev.Callee, "walk") && strings.Contains(ev.Callee, "List"):
			src := argText(args[1])
			out = append(out, walkEv{K: "List", Field: src[strings.LastIndex(src, ".")+1:], Visitor: argText(args[0])})
		}
	}
	return out
}

func seqString(s []walkEv) string {
	var p []string
	for _, e := range s {
		p = append(p, e.String())
	}
	return strings.Join(p, " ")
}

func buildWalk(p *Program, tier string) ([]*Unit, []UnitError) {
	var units []*Unit
	var errs []UnitError
	dstWalk := pkgDst + ".Walk"
	astWalk := "go/ast.Walk"
	dstVisit := funcKey(pkgDst, false, "Visitor", "Visit")
	astVisit := funcKey("go/ast", false, "Visitor", "Visit")
	nodeIface := nodeIfaceOf(p, pkgDst)
	for _, nt := range p.nodeTypes(pkgDst) {
		nt := nt
		name := "Walk/" + nt.Name
		if !wantUnit(name) {
			continue
		}
		// --- reference sequence from go/ast ---
		var ref []walkEv
		refOK := false
		if at := p.astNamed(nt.Name); at != nil {
			ant := nodeType{nt.Name, at, types.NewPointer(at)}
			ropts := caseOpts("node", ant, "ast")
			ropts.Trace = true
			ropts.AtExit = func(ex *Exec, frm *frame, g string, st *State, res []Val) {
				ref = walkTape(ex, frm.fn, astWalk, astVisit)
				refOK = g != "false"
			}
			if _, err := p.verifyFunc(astWalk, ropts); err != nil {
				errs = append(errs, UnitError{name, "reference go/ast.Walk: " + err.Error()})
				continue
			}
		}
		// drop comment groups (no dst counterpart) and fields dst does not have
		var want []walkEv
		for _, e := range ref {
			if e.K != "Visit" {
				if e.Field == "Doc" || e.Field == "Comment" || e.Field == "Comments" {
					continue
				}
				if ft, _ := fieldType(nt.Named, e.Field); ft == nil {
					continue
				}
			}
			want = append(want, e)
		}
		opts := caseOpts("node", nt, "dst")
		opts.Trace = true
		// children go/ast walks without a nil guard are mandatory: go/ast itself would panic on nil
		for _, e := range want {
			if e.K == "Child" && !e.Guarded {
				opts.ExtraRequires = append(opts.ExtraRequires, fmt.Sprintf("cast(node, type(*dst.%s)).%s != nil", nt.Name, e.Field))
			}
		}
		// list elements are assumed non-nil (go/ast's Walk has the same precondition on them)
		stt0 := nt.Named.Underlying().(*types.Struct)
		for i := 0; i < stt0.NumFields(); i++ {
			if classifyField(stt0.Field(i), nodeIface) == fcListIface {
				f := stt0.Field(i).Name()
				opts.ExtraRequires = append(opts.ExtraRequires, fmt.Sprintf("forall i int :: 0 <= i && i < len(cast(node, type(*dst.%s)).%s) ==> cast(node, type(*dst.%s)).%s[i] != nil", nt.Name, f, nt.Name, f))
			}
		}
		opts.AtExit = func(ex *Exec, frm *frame, g string, st *State, res []Val) {
			got := walkTape(ex, frm.fn, dstWalk, dstVisit)
			check := func(label string, ok bool, what string) {
				goal := "true"
				if !ok {
					goal = "false"
				}
				o := ex.oblige(name+"#visit:"+label, "frame", "true", goal, what, "")
				o.Guard = "true"
			}
			what := fmt.Sprintf("dst.Walk: %s | go/ast.Walk: %s", seqString(got), seqString(want))
			check("case_exists", g != "false" && refOK, what)
			// same children, same order, same nil guards
			var gs, ws []string
			for _, e := range got {
				if e.K != "Visit" {
					gs = append(gs, e.K+":"+e.Field)
				}
			}
			for _, e := range want {
				if e.K != "Visit" {
					ws = append(ws, e.K+":"+e.Field)
				}
			}
			check("children_as_go_ast", strings.Join(gs, ",") == strings.Join(ws, ","), what)
			guardsOK := len(got) == len(want)
			for i := 0; guardsOK && i < len(got); i++ {
				if got[i].K == "Child" && got[i].Guarded != want[i].Guarded {
					guardsOK = false
				}
			}
			check("nil_guards_as_go_ast", guardsOK, what)
			// protocol: Visit(node) first, children with the visitor it returned, Visit(nil) last
			proto := len(got) >= 2 && got[0].K == "Visit" && got[0].Field == "node" && got[len(got)-1].K == "Visit" && got[len(got)-1].Field == "nil"
			for _, e := range got {
				if e.Visitor != "v" {
					proto = false
				}
			}
			for i := 1; proto && i < len(got)-1; i++ {
				if got[i].K == "Visit" {
					proto = false
				}
			}
			check("visit_protocol", proto, what)
			// semantic part of the protocol: children and the closing Visit(nil) use the visitor that Visit(node) returned
			var first *Event
			k := 0
			for i := range ex.trace {
				ev := &ex.trace[i]
				if ev.Kind != "call" || ev.Depth != 0 {
					continue
				}
				if ev.Callee == dstVisit && first == nil {
					first = ev
					continue
				}
				if first == nil || first.Res == nil {
					continue
				}
				if ev.Callee == dstVisit || ev.Callee == dstWalk || (strings.Contains(ev.Callee, "walk") && strings.Contains(ev.Callee, "List")) {
					k++
					ex.oblige(fmt.Sprintf("%s#visit:uses_returned_visitor@%d", name, k), "schema", ev.Guard, eq(ev.Args[0].T, first.Res.T), "the visitor passed on is the one Visit(node) returned", ex.pos(ev.Instr.Pos()))
				}
			}
			// cross-check with the struct definition: every node-typed field is walked, in struct order
			stt := nt.Named.Underlying().(*types.Struct)
			var fields []string
			for i := 0; i < stt.NumFields(); i++ {
				switch classifyField(stt.Field(i), nodeIface) {
				case fcNodeIface, fcNodePtr, fcListIface, fcListPtr:
					if !notRestored[nt.Name+"."+stt.Field(i).Name()] {
						fields = append(fields, stt.Field(i).Name())
					}
				case fcMap:
					if stt.Field(i).Name() == "Files" {
						fields = append(fields, "Files")
					}
				}
			}
			var walked []string
			for _, e := range got {
				if e.K != "Visit" {
					walked = append(walked, e.Field)
				}
			}
			check("all_node_fields_in_struct_order", strings.Join(fields, ",") == strings.Join(walked, ","), fmt.Sprintf("struct fields %v, walked %v", fields, walked))
		}
		u, err := p.verifyFunc(dstWalk, opts)
		if err != nil {
			errs = append(errs, UnitError{name, err.Error()})
			continue
		}
		units = append(units, u)
	}
	// the list helpers: each calls Walk once per element, in order, with the visitor it was given
	for _, h := range []string{"walkIdentList", "walkExprList", "walkStmtList", "walkDeclList"} {
		h := h
		if !wantUnit("Walk/" + h) {
			continue
		}
		opts := &UnitOpts{Trace: true}
		opts.AtExit = func(ex *Exec, frm *frame, g string, st *State, res []Val) {
			got := walkTape(ex, frm.fn, dstWalk, dstVisit)
			ok := len(got) == 1 && got[0].K == "List" && got[0].Field == "list" && got[0].Visitor == "v"
			goal := "true"
			if !ok {
				goal = "false"
			}
			o := ex.oblige(h+"#visit:each_element_once_in_order", "frame", "true", goal, "static sequence: "+seqString(got), "")
			o.Guard = "true"
		}
		u, err := p.verifyFunc(pkgDst+"."+h, opts)
		if err != nil {
			errs = append(errs, UnitError{h, err.Error()})
			continue
		}
		units = append(units, u)
	}
	// Inspect: f decides whether the subtree is walked. inspector.Visit returns itself exactly when
	// f(node) is true and nil otherwise (so Walk skips exactly the subtree f declines and sends the
	// closing nil to the same f); Inspect is one Walk of the node with that visitor.
	if wantUnit("Inspect") {
		vopts := &UnitOpts{Trace: true}
		vopts.AtExit = func(ex *Exec, frm *frame, g string, st *State, res []Val) {
			n := 0
			for i := range ex.trace {
				ev := &ex.trace[i]
				if ev.Kind != "call" || ev.Depth != 0 || ev.Res == nil || !strings.Contains(ev.Callee, "callback.f") {
					continue
				}
				n++
				fv := frm.params["f"]
				self := mkI(intLit(int64(ex.u.typeID(frm.fn.Signature.Recv().Type()))), fv.T)
				arg := "true"
				if len(ev.Args) == 1 && ev.Args[0].T != "" && frm.params["node"].T != "" {
					arg = eq(ev.Args[0].T, frm.params["node"].T)
				}
				goal := and(arg, implies(ev.Res.T, eq(res[0].T, self)), implies(not(ev.Res.T), eq(res[0].T, nilIface)))
				ex.oblige("inspector.Visit#visit:continues_exactly_when_f_accepts", "schema", and(g, ev.Guard), goal,
					"f is called with the node; the result is the same inspector when f(node) is true and nil when it is false", "")
			}
			o := ex.oblige("inspector.Visit#visit:f_called_once", "frame", "true", map[bool]string{true: "true", false: "false"}[n == 1], fmt.Sprintf("%d call(s) of f", n), "")
			o.Guard = "true"
		}
		if u, err := p.verifyFunc(pkgDst+".(inspector).Visit", vopts); err != nil {
			errs = append(errs, UnitError{"inspector.Visit", err.Error()})
		} else {
			units = append(units, u)
		}
		// "node must not be nil" (documented precondition of Inspect)
		iopts := &UnitOpts{Trace: true, ExtraRequires: []string{"node != nil"}}
		iopts.AtExit = func(ex *Exec, frm *frame, g string, st *State, res []Val) {
			n, ok := 0, false
			for i := range ex.trace {
				ev := &ex.trace[i]
				if ev.Kind != "call" || ev.Depth != 0 || ev.Callee != dstWalk {
					continue
				}
				n++
				if len(ev.Args) == 2 {
					want := mkI(intLit(int64(ex.u.typeID(p.fns[pkgDst+".(inspector).Visit"].Signature.Recv().Type()))), frm.params["f"].T)
					goal := and(eq(ev.Args[1].T, frm.params["node"].T), eq(ev.Args[0].T, want))
					ex.oblige("Inspect#visit:walks_the_node_with_f_as_visitor", "schema", and(g, ev.Guard), goal, "Walk(inspector(f), node)", "")
					ok = true
				}
			}
			o := ex.oblige("Inspect#visit:one_walk", "frame", "true", map[bool]string{true: "true", false: "false"}[n == 1 && ok], fmt.Sprintf("%d call(s) of Walk", n), "")
			o.Guard = "true"
			direct := 0
			for i := range ex.trace {
				if ev := &ex.trace[i]; ev.Kind == "call" && ev.Depth == 0 && strings.Contains(ev.Callee, "callback.f") {
					direct++
				}
			}
			o2 := ex.oblige("Inspect#visit:f_called_only_by_the_walk", "frame", "true", map[bool]string{true: "true", false: "false"}[direct == 0], fmt.Sprintf("%d direct call(s) of f in Inspect", direct), "")
			o2.Guard = "true"
		}
		if u, err := p.verifyFunc(pkgDst+".Inspect", iopts); err != nil {
			errs = append(errs, UnitError{"Inspect", err.Error()})
		} else {
			units = append(units, u)
		}
	}
	return units, errs
}

func init() {
	register(&Property{
		ID:       "C13",
		Title:    "Walk and Inspect visit every node exactly once, in source order",
		Packages: []string{pkgDst},
		Extra:    []string{"go/ast"},
		Build:    buildWalk,
		Assumptions: []string{
			"the visitor does not modify the tree while it is being walked (assumed contract of Visitor.Visit)",
			"reference: the per-type child sequence and nil guards of go/ast.Walk ($GOROOT/src/go/ast/walk.go) extracted through the same SSA pipeline on every run",
			"children go/ast walks without a nil guard are mandatory (go/ast itself panics on nil there): assumed non-nil for the dst case",
			"exactly-once and parents-before-children follow by induction over the tree from the per-type sequences (acyclic trees)",
		},
	})
}

// indexLoopSrc: the slice an index loop walks element by element — `for i := 0; i < len(x); i++ { …x[i]… }`, with the
// bound possibly held in a local (`end := len(x)`). Accepted only when the loop has the discipline a range loop has by
// construction: the counter starts at 0 before the loop, its only store inside the loop is counter+1 in the block all
// back edges come from, the bound is len(x) taken before the loop, and the element handed on is x[counter].
func indexLoopSrc(h *ssa.BasicBlock, body map[*ssa.BasicBlock]bool, elem ssa.Value) string {
	iff, ok := h.Instrs[len(h.Instrs)-1].(*ssa.If)
	if !ok {
		return ""
	}
	cond, ok := iff.Cond.(*ssa.BinOp)
	if !ok || cond.Op != token.LSS {
		return ""
	}
	cl, ok := cond.X.(*ssa.UnOp)
	if !ok {
		return ""
	}
	counter, ok := cl.X.(*ssa.Alloc)
	if !ok {
		return ""
	}
	// the bound: len(x) directly or through a local stored once, outside the loop
	var lenCall *ssa.Call
	switch y := cond.Y.(type) {
	case *ssa.Call:
		lenCall = y
	case *ssa.UnOp:
		if a, ok := y.X.(*ssa.Alloc); ok {
			n := 0
			for _, r := range *a.Referrers() {
				if st, ok := r.(*ssa.Store); ok && st.Addr == ssa.Value(a) {
					n++
					if c, ok := st.Val.(*ssa.Call); ok && !body[st.Block()] {
						lenCall = c
					}
				}
			}
			if n != 1 {
				return ""
			}
		}
	}
	if lenCall == nil {
		return ""
	}
	// like a range loop, the length is taken once, before the loop
	if b, ok := lenCall.Call.Value.(*ssa.Builtin); !ok || b.Name() != "len" || body[lenCall.Block()] {
		return ""
	}
	xl, ok := lenCall.Call.Args[0].(*ssa.UnOp)
	if !ok {
		return ""
	}
	src := sliceSrcText(xl.X)
	if src == "" {
		return ""
	}
	// counter discipline
	var latch *ssa.BasicBlock
	for _, p := range h.Preds {
		if body[p] {
			if latch != nil && latch != p {
				return ""
			}
			latch = p
		}
	}
	inits, incs := 0, 0
	for _, r := range *counter.Referrers() {
		st, ok := r.(*ssa.Store)
		if !ok || st.Addr != ssa.Value(counter) {
			continue
		}
		if body[st.Block()] {
			add, ok := st.Val.(*ssa.BinOp)
			if !ok || add.Op != token.ADD || st.Block() != latch {
				return ""
			}
			ld, ok := add.X.(*ssa.UnOp)
			c, ok2 := add.Y.(*ssa.Const)
			if !ok || !ok2 || ld.X != ssa.Value(counter) || c.Value == nil || c.Int64() != 1 {
				return ""
			}
			incs++
		} else {
			c, ok := st.Val.(*ssa.Const)
			if !ok || c.Value == nil || c.Int64() != 0 {
				return ""
			}
			inits++
		}
	}
	if inits != 1 || incs != 1 {
		return ""
	}
	// the element handed on is x[counter] (possibly boxed into the Node interface)
	for k := 0; k < 3; k++ {
		switch y := elem.(type) {
		case *ssa.MakeInterface:
			elem = y.X
		case *ssa.ChangeType:
			elem = y.X
		case *ssa.ChangeInterface:
			elem = y.X
		}
	}
	el, ok := elem.(*ssa.UnOp)
	if !ok {
		return ""
	}
	ia, ok := el.X.(*ssa.IndexAddr)
	if !ok {
		return ""
	}
	il, ok := ia.Index.(*ssa.UnOp)
	if !ok || il.X != ssa.Value(counter) {
		return ""
	}
	sl, ok := ia.X.(*ssa.UnOp)
	if !ok {
		return ""
	}
	// like a range loop, the slice header is read once: both the length and the elements come from one local that is
	// assigned exactly once (a parameter, or list := n.List)
	la, ok := sl.X.(*ssa.Alloc)
	if !ok || xl.X != ssa.Value(la) {
		return ""
	}
	nst := 0
	for _, r := range *la.Referrers() {
		if st, ok := r.(*ssa.Store); ok && st.Addr == ssa.Value(la) {
			nst++
		}
	}
	if nst != 1 {
		return ""
	}
	if esrc := sliceSrcText(sl.X); esrc != src {
		return ""
	}
	return src
}

// sliceSrcText: text of the slice held at an address — a field (n.List), or a local; a local that is assigned exactly
// once, from a field, stands for that field (list := n.List).
func sliceSrcText(addr ssa.Value) string {
	if t, ok := addrText(addr); ok {
		return t
	}
	a, ok := addr.(*ssa.Alloc)
	if !ok {
		return ""
	}
	var only ssa.Value
	n := 0
	for _, r := range *a.Referrers() {
		if st, ok := r.(*ssa.Store); ok && st.Addr == ssa.Value(a) {
			n++
			only = st.Val
		}
	}
	if n == 1 {
		if ld, ok := only.(*ssa.UnOp); ok {
			if t, ok := addrText(ld.X); ok {
				return t
			}
		}
	}
	return a.Comment
}
