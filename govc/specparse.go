package main

// Parser for the contract expression language (Go expression syntax plus
// old(), forall/exists, ==>, c ? a : b, type(T)).

import (
	"fmt"
	"strconv"
	"strings"
	"unicode"
)

type SExpr struct {
	Op       string // "id","int","str","bin","un","call","sel","idx","slice","cond","forall","exists","type"
	Name     string // id / field / operator / callee name
	Args     []*SExpr
	Binds    []SBind    // quantifier binders
	Triggers [][]*SExpr // quantifier patterns
	Int      int64
	Str      string
	Pos      int
}

type SBind struct {
	Name string
	Type string
}

type tok struct {
	kind string // "id","int","str","op","eof"
	text string
	pos  int
}

func lexSpec(s string) ([]tok, error) {
	var out []tok
	i := 0
	for i < len(s) {
		c := s[i]
		switch {
		case c == ' ' || c == '\t' || c == '\n' || c == '\r':
			i++
		case unicode.IsLetter(rune(c)) || c == '_' || c == '$':
			j := i + 1
			for j < len(s) && (unicode.IsLetter(rune(s[j])) || unicode.IsDigit(rune(s[j])) || s[j] == '_' || s[j] == '$') {
				j++
			}
			out = append(out, tok{"id", s[i:j], i})
			i = j
		case c >= '0' && c <= '9':
			j := i + 1
			for j < len(s) && (s[j] >= '0' && s[j] <= '9' || s[j] == 'x' || (s[j] >= 'a' && s[j] <= 'f')) {
				j++
			}
			out = append(out, tok{"int", s[i:j], i})
			i = j
		case c == '"':
			j := i + 1
			for j < len(s) && s[j] != '"' {
				if s[j] == '\\' {
					j++
				}
				j++
			}
			if j >= len(s) {
				return nil, fmt.Errorf("unterminated string at %d", i)
			}
			str, err := strconv.Unquote(s[i : j+1])
			if err != nil {
				return nil, fmt.Errorf("bad string %s", s[i:j+1])
			}
			out = append(out, tok{"str", str, i})
			i = j + 1
		default:
			ops := []string{"==>", "<==>", "::", "==", "!=", "<=", ">=", "&&", "||", "+", "-", "*", "/", "%", "<", ">", "!", "(", ")", "[", "]", ".", ",", "?", ":", "{", "}"}
			found := ""
			for _, o := range ops {
				if strings.HasPrefix(s[i:], o) && len(o) > len(found) {
					found = o
				}
			}
			if found == "" {
				return nil, fmt.Errorf("unexpected %q at %d in %q", c, i, s)
			}
			out = append(out, tok{"op", found, i})
			i += len(found)
		}
	}
	out = append(out, tok{"eof", "", len(s)})
	return out, nil
}

type sparser struct {
	toks []tok
	p    int
	src  string
}

func parseSpec(s string) (e *SExpr, err error) {
	toks, err := lexSpec(s)
	if err != nil {
		return nil, err
	}
	p := &sparser{toks: toks, src: s}
	defer func() {
		if r := recover(); r != nil {
			if pe, ok := r.(parseErr); ok {
				err = fmt.Errorf("%s in %q", string(pe), s)
				return
			}
			panic(r)
		}
	}()
	e = p.expr()
	if p.peek().kind != "eof" {
		p.fail("trailing input at " + p.peek().text)
	}
	return e, nil
}

type parseErr string

func (p *sparser) fail(m string) { panic(parseErr(m)) }
func (p *sparser) peek() tok     { return p.toks[p.p] }
func (p *sparser) next() tok     { t := p.toks[p.p]; p.p++; return t }
func (p *sparser) isOp(s string) bool {
	t := p.peek()
	return t.kind == "op" && t.text == s
}
func (p *sparser) accept(s string) bool {
	if p.isOp(s) {
		p.p++
		return true
	}
	return false
}
func (p *sparser) expect(s string) {
	if !p.accept(s) {
		p.fail(fmt.Sprintf("expected %q, found %q", s, p.peek().text))
	}
}

func (p *sparser) expr() *SExpr {
	t := p.peek()
	if t.kind == "id" && (t.text == "forall" || t.text == "exists") {
		p.next()
		q := &SExpr{Op: t.text, Pos: t.pos}
		for {
			n := p.next()
			if n.kind != "id" {
				p.fail("binder name expected")
			}
			q.Binds = append(q.Binds, SBind{n.text, p.typeText()})
			if !p.accept(",") {
				break
			}
		}
		p.expect("::")
		// optional triggers: { e1, e2 } { e3 } ...
		for p.isOp("{") {
			p.next()
			var tr []*SExpr
			for !p.isOp("}") {
				tr = append(tr, p.expr())
				if !p.accept(",") {
					break
				}
			}
			p.expect("}")
			q.Triggers = append(q.Triggers, tr)
		}
		q.Args = []*SExpr{p.expr()}
		return q
	}
	return p.iff()
}

func (p *sparser) iff() *SExpr {
	l := p.impl()
	for p.isOp("<==>") {
		t := p.next()
		r := p.impl()
		l = &SExpr{Op: "bin", Name: "<==>", Args: []*SExpr{l, r}, Pos: t.pos}
	}
	return l
}

func (p *sparser) impl() *SExpr {
	l := p.cond()
	if p.isOp("==>") {
		t := p.next()
		var r *SExpr
		if pk := p.peek(); pk.kind == "id" && (pk.text == "forall" || pk.text == "exists") {
			r = p.expr()
		} else {
			r = p.impl()
		}
		return &SExpr{Op: "bin", Name: "==>", Args: []*SExpr{l, r}, Pos: t.pos}
	}
	return l
}

func (p *sparser) cond() *SExpr {
	c := p.orE()
	if p.isOp("?") {
		t := p.next()
		a := p.expr()
		p.expect(":")
		b := p.cond()
		return &SExpr{Op: "cond", Args: []*SExpr{c, a, b}, Pos: t.pos}
	}
	return c
}

func (p *sparser) binLevel(ops []string, sub func() *SExpr, chain bool) *SExpr {
	l := sub()
	for {
		t := p.peek()
		if t.kind != "op" || !contains(ops, t.text) {
			return l
		}
		p.next()
		r := sub()
		l = &SExpr{Op: "bin", Name: t.text, Args: []*SExpr{l, r}, Pos: t.pos}
		if !chain {
			return l
		}
	}
}

func (p *sparser) orE() *SExpr  { return p.binLevel([]string{"||"}, p.andE, true) }
func (p *sparser) andE() *SExpr { return p.binLevel([]string{"&&"}, p.cmpE, true) }
func (p *sparser) cmpE() *SExpr {
	return p.binLevel([]string{"==", "!=", "<", "<=", ">", ">="}, p.addE, false)
}
func (p *sparser) addE() *SExpr { return p.binLevel([]string{"+", "-"}, p.mulE, true) }
func (p *sparser) mulE() *SExpr { return p.binLevel([]string{"*", "/", "%"}, p.unary, true) }

func (p *sparser) unary() *SExpr {
	t := p.peek()
	if t.kind == "op" && (t.text == "!" || t.text == "-" || t.text == "*") {
		p.next()
		return &SExpr{Op: "un", Name: t.text, Args: []*SExpr{p.unary()}, Pos: t.pos}
	}
	return p.postfix()
}

func (p *sparser) postfix() *SExpr {
	e := p.primary()
	for {
		t := p.peek()
		switch {
		case p.accept("."):
			n := p.next()
			if n.kind != "id" {
				p.fail("field name expected")
			}
			e = &SExpr{Op: "sel", Name: n.text, Args: []*SExpr{e}, Pos: t.pos}
		case p.accept("["):
			if p.accept(":") {
				hi := p.expr()
				p.expect("]")
				e = &SExpr{Op: "slice", Args: []*SExpr{e, nil, hi}, Pos: t.pos}
				continue
			}
			i := p.expr()
			if p.accept(":") {
				var hi *SExpr
				if !p.isOp("]") {
					hi = p.expr()
				}
				p.expect("]")
				e = &SExpr{Op: "slice", Args: []*SExpr{e, i, hi}, Pos: t.pos}
				continue
			}
			p.expect("]")
			e = &SExpr{Op: "idx", Args: []*SExpr{e, i}, Pos: t.pos}
		case p.isOp("("):
			p.next()
			var args []*SExpr
			for !p.isOp(")") {
				args = append(args, p.expr())
				if !p.accept(",") {
					break
				}
			}
			p.expect(")")
			name := ""
			switch e.Op {
			case "id":
				name = e.Name
				e = &SExpr{Op: "call", Name: name, Args: args, Pos: t.pos}
			case "sel":
				// method-style predicate call: recv.pred(args)
				e = &SExpr{Op: "call", Name: "." + e.Name, Args: append([]*SExpr{e.Args[0]}, args...), Pos: t.pos}
			default:
				p.fail("call of non-name")
			}
		default:
			return e
		}
	}
}

func (p *sparser) primary() *SExpr {
	t := p.next()
	switch t.kind {
	case "id":
		if t.text == "type" && p.isOp("(") {
			p.next()
			ty := p.typeText()
			p.expect(")")
			return &SExpr{Op: "type", Name: ty, Pos: t.pos}
		}
		return &SExpr{Op: "id", Name: t.text, Pos: t.pos}
	case "int":
		n, err := strconv.ParseInt(t.text, 0, 64)
		if err != nil {
			p.fail("bad int " + t.text)
		}
		return &SExpr{Op: "int", Int: n, Pos: t.pos}
	case "str":
		return &SExpr{Op: "str", Str: t.text, Pos: t.pos}
	case "op":
		if t.text == "(" {
			e := p.expr()
			p.expect(")")
			return e
		}
	}
	p.fail("unexpected " + t.text)
	return nil
}

// typeText reads a Go type: [*|[]]* ident [. ident]
func (p *sparser) typeText() string {
	var b strings.Builder
	for {
		if p.accept("*") {
			b.WriteString("*")
			continue
		}
		if p.isOp("[") {
			p.next()
			p.expect("]")
			b.WriteString("[]")
			continue
		}
		break
	}
	n := p.next()
	if n.kind != "id" {
		p.fail("type name expected, found " + n.text)
	}
	b.WriteString(n.text)
	if p.isOp(".") {
		// pkg.Type — only when followed by an identifier
		if p.toks[p.p+1].kind == "id" {
			p.next()
			b.WriteString("." + p.next().text)
		}
	}
	return b.String()
}

func (e *SExpr) String() string {
	if e == nil {
		return "<nil>"
	}
	switch e.Op {
	case "id":
		return e.Name
	case "int":
		return fmt.Sprint(e.Int)
	case "str":
		return strconv.Quote(e.Str)
	case "bin":
		return "(" + e.Args[0].String() + " " + e.Name + " " + e.Args[1].String() + ")"
	case "un":
		return e.Name + e.Args[0].String()
	case "sel":
		return e.Args[0].String() + "." + e.Name
	case "idx":
		return e.Args[0].String() + "[" + e.Args[1].String() + "]"
	case "call":
		var as []string
		for _, a := range e.Args {
			as = append(as, a.String())
		}
		return e.Name + "(" + strings.Join(as, ", ") + ")"
	case "type":
		return "type(" + e.Name + ")"
	}
	return e.Op
}
