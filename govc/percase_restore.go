package main

// Per-case obligations for restoreNode (restorer-generated.go): node maps (C11), field
// correspondence (C03), position stores (C12), duplicate detection (C06), render tape (C04).
// One unit per node type carries all of them; each property's check discharges the obligations
// whose label belongs to it and uses the sibling labels as assumptions (assert-then-assume).

import (
	"fmt"
	"go/types"
	"sort"
	"strings"

	"golang.org/x/tools/go/ssa"
)

func (p *Program) astNamed(name string) *types.Named {
	pk := p.pkgs["go/ast"]
	if pk == nil {
		return nil
	}
	if tn, ok := pk.Types.Scope().Lookup(name).(*types.TypeName); ok {
		if nt, ok := tn.Type().(*types.Named); ok {
			return nt
		}
	}
	return nil
}

func isTokenPos(t types.Type) bool {
	n, ok := t.(*types.Named)
	return ok && n.Obj().Name() == "Pos" && n.Obj().Pkg() != nil && n.Obj().Pkg().Path() == "go/token"
}

// dst-only fields without an ast counterpart (tabled; anything else unmatched is reported)
// FuncType.Func inside a FuncDecl is not mirrored: a function declaration always has the keyword.
var notMirrored = map[string]bool{"Type.Func.flag": true}

var dstOnlyFields = map[string]bool{"BadDecl.Length": true, "BadExpr.Length": true, "BadStmt.Length": true, "BlockStmt.RbraceHasNoPos": true, "Ident.Path": true}

// restoreFieldConds: C03 obligations relating dst node `in` (*dst.T) and its restored ast node `out` (*ast.T).
func restoreFieldConds(p *Program, dt, at *types.Named, in, out, prefix string, consulted map[string]bool, unmatched *[]string) [][2]string {
	nodeIface := nodeIfaceOf(p, pkgDst)
	st := dt.Underlying().(*types.Struct)
	var conds [][2]string
	for i := 0; i < st.NumFields(); i++ {
		f := st.Field(i)
		if f.Name() == "Decs" {
			continue
		}
		aft, _ := fieldType(at, f.Name())
		inF, outF := in+"."+f.Name(), out+"."+f.Name()
		label := prefix + f.Name()
		if aft == nil {
			if !dstOnlyFields[dt.Obj().Name()+"."+f.Name()] {
				*unmatched = append(*unmatched, dt.Obj().Name()+"."+f.Name())
			}
			continue
		}
		switch classifyField(f, nodeIface) {
		case fcNodeIface:
			conds = append(conds, [2]string{label, fmt.Sprintf("%s == nil ? %s == nil : (has(r.Ast.Nodes, %s) && r.Ast.Nodes[%s] == %s)", inF, outF, inF, inF, outF)})
		case fcNodePtr:
			conds = append(conds, [2]string{label, fmt.Sprintf("%s == nil ? %s == nil : (has(r.Ast.Nodes, %s) && r.Ast.Nodes[%s] == %s)", inF, outF, inF, inF, outF)})
			// a child restored in line (its own fields are read by this case): its fields must correspond too
			inline := false
			for c := range consulted {
				if strings.HasPrefix(c, prefix+f.Name()+".") {
					inline = true
				}
			}
			if inline && prefix == "" {
				cdt := f.Type().Underlying().(*types.Pointer).Elem().(*types.Named)
				if cat := p.astNamed(cdt.Obj().Name()); cat != nil {
					for _, c := range restoreFieldConds(p, cdt, cat, inF, outF, label+".", consulted, unmatched) {
						conds = append(conds, [2]string{c[0], fmt.Sprintf("%s != nil ==> (%s)", inF, c[1])})
					}
				}
			}
		case fcListIface, fcListPtr:
			if notRestored[dt.Obj().Name()+"."+f.Name()] {
				continue
			}
			conds = append(conds, [2]string{label + ".len", fmt.Sprintf("len(%s) == len(%s)", outF, inF)})
			conds = append(conds, [2]string{label + ".elems", fmt.Sprintf("forall i int :: 0 <= i && i < len(%s) ==> has(r.Ast.Nodes, %s[i]) && r.Ast.Nodes[%s[i]] == %s[i]", inF, inF, inF, outF)})
		case fcValue, fcOther:
			switch {
			case sortOfSafe(f.Type()) == SBool && isTokenPos(aft):
				conds = append(conds, [2]string{label + ".flag", fmt.Sprintf("(%s != 0) == %s", outF, inF)})
			case sortOfSafe(f.Type()) == sortOfSafe(aft) && sortOfSafe(aft) != "" && sortOfSafe(aft) != "struct":
				conds = append(conds, [2]string{label, fmt.Sprintf("%s == %s", outF, inF)})
			default:
				*unmatched = append(*unmatched, dt.Obj().Name()+"."+f.Name()+" (incomparable types)")
			}
		case fcObject:
			conds = append(conds, [2]string{label + ".extras_off", fmt.Sprintf("!r.Extras ==> %s == nil", outF)})
			// C18: with extras on, the counterpart through the object / scope map
			m := "r.Ast.Objects"
			if strings.HasSuffix(f.Type().String(), "Scope") {
				m = "r.Ast.Scopes"
			}
			conds = append(conds, [2]string{"graph!" + label, fmt.Sprintf("r.Extras ==> (%s == nil ? %s == nil : has(%s, %s) && %s[%s] == %s)", inF, outF, m, inF, m, inF, outF)})
		case fcMap:
			// Package.Files: handled by the Package case invariants
			if f.Name() == "Imports" {
				conds = append(conds, [2]string{"graph!" + label + ".names", fmt.Sprintf("r.Extras ==> (forall k string :: has(%s, k) == has(%s, k))", outF, inF)})
				conds = append(conds, [2]string{"graph!" + label + ".members", fmt.Sprintf("r.Extras ==> (forall k string :: has(%s, k) && %s[k] != nil ==> has(r.Ast.Objects, %s[k]) && %s[k] == r.Ast.Objects[%s[k]])", inF, inF, inF, outF, inF)})
				conds = append(conds, [2]string{"graph!" + label + ".extras_off", fmt.Sprintf("!r.Extras ==> (forall k string :: has(%s, k) ==> %s[k] == nil)", outF, outF)})
			}
		}
	}
	return conds
}

type restoreCaseInfo struct {
	unmatched []string
}

func restoreNodeOpts(p *Program, nt nodeType) *UnitOpts {
	key := fr("restoreNode")
	opts := caseOpts("n", nt, "dst")
	opts.Trace = true
	at := p.astNamed(nt.Name)
	consulted := p.consultedPaths(key, nt)
	opts.AtExit = func(ex *Exec, frm *frame, g string, st *State, res []Val) {
		if len(res) != 1 || at == nil {
			return
		}
		u := ex.u
		name := "restoreNode/" + nt.Name
		rv := frm.params["r"]
		nv := frm.params["n"]
		envAt := func(s *State) *SpecEnv {
			env := &SpecEnv{ex: ex, vars: map[string]Val{}, cur: s, old: frm.entry, pkg: frm.fn.Pkg.Pkg}
			env.vars["r"] = rv
			env.vars["n"] = nv
			env.vars["result"] = res[0]
			env.vars["$in"] = Val{T: iRef(nv.T), Typ: nt.Ptr}
			env.vars["$out"] = Val{T: iRef(res[0].T), Typ: types.NewPointer(at)}
			return env
		}
		exitEnv := envAt(st)
		astPtrID := u.typeID(types.NewPointer(at))
		// fresh path that produced a node of the same-named ast type (an Ident may become a SelectorExpr)
		normal := fmt.Sprintf("!old(has(r.Ast.Nodes, n)) && typeof(result) == %d", astPtrID)
		// --- C03: fields ---
		var unmatched []string
		for _, c := range restoreFieldConds(p, nt.Named, at, "$in", "$out", "", consulted, &unmatched) {
			if nt.Name == "FuncDecl" && notMirrored[c[0]] {
				continue
			}
			if strings.HasPrefix(c[0], "graph!") {
				ex.obligeSpec(exitEnv, name+"#graph:"+c[0][6:], "schema", g, normal+" ==> ("+c[1]+")", nil)
				continue
			}
			ex.obligeSpec(exitEnv, name+"#fields:"+c[0], "schema", g, normal+" ==> ("+c[1]+")", nil)
		}
		if nt.Name == "Ident" {
			// --- C07: an identifier is rendered as a selector on the name chosen for its package exactly
			// when it carries the path of another package that is imported under a name ---
			q := `r.Resolver != nil && $in.Path != "" && $in.Path != r.Path && has(r.packageNames, $in.Path) && r.packageNames[$in.Path] != "" && r.packageNames[$in.Path] != "."`
			fresh := "!old(has(r.Ast.Nodes, n))"
			sel := "cast(result, type(*ast.SelectorExpr))"
			ex.obligeSpec(exitEnv, name+"#imports:qualified_is_selector_on_chosen_name", "schema", g,
				fresh+" && ("+q+") ==> typeof(result) == type(*ast.SelectorExpr) && typeof("+sel+".X) == type(*ast.Ident) && cast("+sel+".X, type(*ast.Ident)).Name == r.packageNames[$in.Path] && "+sel+".Sel != nil && "+sel+".Sel.Name == $in.Name", nil)
			ex.obligeSpec(exitEnv, name+"#imports:unqualified_is_bare", "schema", g,
				fresh+" && !("+q+") ==> typeof(result) == type(*ast.Ident) && cast(result, type(*ast.Ident)).Name == $in.Name", nil)
		}
		sort.Strings(unmatched)
		for _, um := range unmatched {
			o := ex.oblige(name+"#fields:unmatched:"+um, "frame", "true", "false", "dst field without an ast counterpart and not in the dst-only table", "")
			o.Guard = "true"
		}
		// --- events ---
		nPos := map[string]int{}
		nAlloc := map[string]int{}
		nRec := 0
		nodeA := nodeIfaceOf(p, "go/ast")
		for _, ev := range ex.trace {
			switch ev.Kind {
			case "store":
				// C12: every position written into an ast node is the current cursor or NoPos
				if !isTokenPos(ev.Typ) || !strings.HasPrefix(ev.Loc.Owner, "ast.") {
					continue
				}
				fld := ev.Loc.Owner + "." + strings.Join(ev.Loc.Path, ".")
				nPos[fld]++
				env := envAt(ev.St)
				cur := env.eval(mustParse("r.cursor"))
				goal := or(eq(ev.Val.T, cur.T), eq(ev.Val.T, "0"))
				ex.oblige(fmt.Sprintf("%s#pos:%s@%d", name, fld, nPos[fld]), "schema", ev.Guard, goal, "position stored into "+fld+" is r.cursor or token.NoPos", ex.pos(ev.Instr.Pos()))
			case "alloc":
				// C11: every ast node this case creates is a key of Dst.Nodes when it returns
				pt := types.NewPointer(ev.Typ)
				nm, ok := ev.Typ.(*types.Named)
				if !ok || nm.Obj().Pkg() == nil || nm.Obj().Pkg().Path() != "go/ast" || !types.Implements(pt, nodeA) {
					continue
				}
				if nm.Obj().Name() == "Comment" || nm.Obj().Name() == "CommentGroup" {
					continue
				}
				nAlloc[nm.Obj().Name()]++
				key := mkI(intLit(int64(u.typeID(pt))), ev.Val.T)
				env := exitEnv.bind("$a", Val{T: key, Typ: types.NewInterfaceType(nil, nil)})
				// the allocation happened on a path (ev.Guard); the exit must be reached through it
				ex.obligeSpec(env, fmt.Sprintf("%s#maps:created_node_mapped:%s@%d", name, nm.Obj().Name(), nAlloc[nm.Obj().Name()]), "schema", and(g, ev.Guard), "hasDst(r, $a)", nil)
			case "call":
				if ev.Callee != fr("restoreNode") {
					continue
				}
				// C06/C11: the node is registered before any child is restored
				nRec++
				env := envAt(ev.St)
				ex.obligeSpec(env, fmt.Sprintf("%s#maps:registered_before_recursion@%d", name, nRec), "schema", ev.Guard, "has(r.Ast.Nodes, n)", nil)
				// C06: the duplicate check is never switched off on the way down — a recursive call hands on the flag it was given
				if ad, ok := frm.params["allowDuplicate"]; ok && len(ev.Args) > 0 && ev.Depth == 0 {
					ex.oblige(fmt.Sprintf("%s#maps:allow_duplicate_handed_on@%d", name, nRec), "schema", ev.Guard, eq(ev.Args[len(ev.Args)-1].T, ad.T),
						"the recursive restoreNode call passes the caller's allowDuplicate", ex.pos(ev.Instr.Pos()))
				}
			}
		}
		restoreTape(ex, frm, p, nt, name, g, st, envAt, res[0].T)
	}
	return opts
}

func mustParse(s string) *SExpr {
	e, err := parseSpec(s)
	if err != nil {
		panic(err)
	}
	return e
}

// ---- C04: render tape ----

type tapeEv struct {
	K      string // Sp, Dec, Child, List, Lit, Tok, Pos
	Name   string // Sp: position; Dec: point name; Child/List: parentField literal
	Src    string // source text of the rendered field (n.Decs.Lbrack, n.Len, ...)
	End    string // Dec: "true"/"false"
	Node   string // Dec: node argument text
	Parent string // Child: parentName literal
	Field  string // Pos: ast field written
	Depth  int
	Guard  string
}

func argText(v ssa.Value) string {
	switch x := v.(type) {
	case *ssa.Const:
		if x.Value == nil {
			return "nil"
		}
		if sortOfSafe(x.Type()) == SStr {
			return "\"" + constantStringVal(x) + "\""
		}
		return x.Value.String()
	case *ssa.MakeInterface:
		return argText(x.X)
	case *ssa.ChangeInterface:
		return argText(x.X)
	case *ssa.ChangeType:
		return argText(x.X)
	case *ssa.UnOp:
		if t, ok := addrText(x.X); ok {
			return t
		}
		if a, ok := x.X.(*ssa.Alloc); ok {
			return a.Comment
		}
	}
	return "?" + v.Name()
}

func unq(s string) string { return strings.Trim(s, "\"") }

// buildTape turns the recorded events of one frame depth into the static render sequence.
func buildTape(ex *Exec, fn *ssa.Function, depth int) []tapeEv {
	_, back := blockOrder(fn)
	loops := findLoops(fn, back)
	loopSrc := func(b *ssa.BasicBlock) string {
		best := ""
		bestN := -1
		for h, body := range loops {
			if body[b] && (bestN < 0 || len(body) < bestN) {
				if src, _, ok := detectForeach(&loopRec{header: h, blocks: body}); ok {
					best, bestN = src, len(body)
				}
			}
		}
		return best
	}
	var tape []tapeEv
	for _, ev := range ex.trace {
		if ev.Depth != depth {
			continue
		}
		switch ev.Kind {
		case "call":
			call, ok := ev.Instr.(*ssa.Call)
			if !ok {
				continue
			}
			a := call.Call.Args
			switch ev.Callee {
			case fr("applySpace"):
				tape = append(tape, tapeEv{K: "Sp", Name: unq(argText(a[2])), Src: strings.ReplaceAll(argText(a[3]), ".NodeDecs.", "."), Node: argText(a[1]), Guard: ev.Guard})
			case fr("applyDecorations"):
				tape = append(tape, tapeEv{K: "Dec", Name: unq(argText(a[2])), Src: strings.ReplaceAll(argText(a[3]), ".NodeDecs.", "."), End: argText(a[4]), Node: argText(a[1]), Guard: ev.Guard})
			case fr("restoreNode"):
				src := argText(a[1])
				k := "Child"
				if !strings.Contains(src, ".") {
					if ls := loopSrc(call.Block()); ls != "" {
						src, k = ls, "List"
					}
				}
				tape = append(tape, tapeEv{K: k, Name: unq(argText(a[3])), Src: src, Parent: unq(argText(a[2])), Guard: ev.Guard})
			case fr("applyLiteral"):
				tape = append(tape, tapeEv{K: "Lit", Src: argText(a[1]), Guard: ev.Guard})
			}
		case "store":
			if ev.Loc.Owner == "decorator.FileRestorer" && len(ev.Loc.Path) == 1 && ev.Loc.Path[0] == "cursor" {
				tape = append(tape, tapeEv{K: "Tok", Guard: ev.Guard})
			} else if isTokenPos(ev.Typ) && strings.HasPrefix(ev.Loc.Owner, "ast.") {
				tape = append(tape, tapeEv{K: "Pos", Field: ev.Loc.Path[len(ev.Loc.Path)-1], Src: ev.Loc.Owner, Guard: ev.Guard})
			}
		}
	}
	return tape
}

func (t tapeEv) String() string {
	switch t.K {
	case "Sp":
		return "Sp(" + t.Name + ")"
	case "Dec":
		return "Dec(" + t.Name + "<-" + t.Src + ",end=" + t.End + ")"
	case "Child", "List":
		return t.K + "(" + t.Src + ")"
	case "Pos":
		return "Pos(" + t.Field + ")"
	case "Lit":
		return "Lit(" + t.Src + ")"
	}
	return t.K
}

// noNamesake: named points that are named for a token without a position field, although a child
// field of the same name exists (read off dst's documented attachment points).
var noNamesake = map[string]bool{"IfStmt.Else": true}

// notRestored: list fields of dst nodes that are cross references and deliberately not restored.
var notRestored = map[string]bool{"File.Imports": true, "File.Unresolved": true}

// decorationFields: Decorations-typed leaves of T.Decs in struct order (Start, named points..., End).
func decorationFields(t types.Type) []string {
	var out []string
	ft, _ := fieldType(t, "Decs")
	if ft == nil {
		return nil
	}
	hasCommon := false
	for _, l := range leaves(ft) {
		if !isDecorationsType(l.Typ) {
			continue
		}
		if len(l.Path) > 1 && l.Path[0] == "NodeDecs" {
			hasCommon = true // Start / End of the embedded NodeDecs frame the named points
			continue
		}
		out = append(out, l.Path[len(l.Path)-1])
	}
	if hasCommon {
		out = append(append([]string{"Start"}, out...), "End")
	}
	return out
}

func restoreTape(ex *Exec, frm *frame, p *Program, nt nodeType, name, g string, st *State, envAt func(*State) *SpecEnv, resT string) {
	check := func(label string, ok bool, what string) {
		goal := "true"
		if !ok {
			goal = "false"
		}
		o := ex.oblige(name+"#tape:"+label, "frame", "true", goal, what, "")
		o.Guard = "true"
	}
	tape := buildTape(ex, frm.fn, 0)
	// every space and every decoration point is rendered on every normally terminating path through
	// the case: "emits each comment exactly once" whatever optional children are present
	dup := envAt(frm.entry).eval(mustParse("has(r.Ast.Nodes, n)"))
	always := func(pfx string, tp []tapeEv, extra string) {
		cnt := map[string]int{}
		for _, t := range tp {
			if t.K != "Dec" && t.K != "Sp" {
				continue
			}
			key := t.K + ":" + t.Name
			cnt[key]++
			ex.oblige(fmt.Sprintf("%s#tape:%salways_rendered:%s@%d", name, pfx, key, cnt[key]), "schema", and(g, not(dup.T), extra), t.Guard, "reached on every normally terminating path that restores the node (it was not in the map)", "")
		}
	}
	if nt.Name == "Ident" {
		// an identifier is rendered either plainly (result *ast.Ident) or as a qualified identifier (result *ast.SelectorExpr)
		always("", tape, eq(iTyp(resT), intLit(int64(ex.u.typeID(types.NewPointer(p.astNamed("Ident")))))))
		if fn := p.fns[fr("restoreIdent")]; fn != nil {
			always("qualified.", buildTape(ex, fn, 1), eq(iTyp(resT), intLit(int64(ex.u.typeID(types.NewPointer(p.astNamed("SelectorExpr")))))))
		}
	} else {
		always("", tape, "")
	}
	var seq []string
	for _, t := range tape {
		seq = append(seq, t.String())
	}
	what := "static render sequence: " + strings.Join(seq, " ")
	root := "n"
	decs := decorationFields(nt.Named)
	if nt.Name == "Package" {
		check("no_decorations", countK(tape, "Dec") == 0 && countK(tape, "Sp") == 0, what)
		return
	}
	if nt.Name == "Ident" {
		// the qualified form is rendered by restoreIdent (inlined, depth 1); the plain form here
		if fn := p.fns[fr("restoreIdent")]; fn != nil {
			sub := buildTape(ex, fn, 1)
			checkTape(check, "qualified.", sub, nt, decs, "n", p)
		}
	}
	checkTape(check, "", tape, nt, decs, root, p)
	_ = what
}

func countK(tape []tapeEv, k string) int {
	n := 0
	for _, t := range tape {
		if t.K == k {
			n++
		}
	}
	return n
}

// checkTape: the structural obligations of C04 on one static render sequence.
func checkTape(check func(string, bool, string), pfx string, tape []tapeEv, nt nodeType, decs []string, root string, p *Program) {
	var seq []string
	for _, t := range tape {
		seq = append(seq, t.String())
	}
	what := "static render sequence: " + strings.Join(seq, " ")
	if len(tape) < 4 {
		check(pfx+"shape", false, what)
		return
	}
	first, last := tape[0], tape[len(tape)-1]
	check(pfx+"before_first", first.K == "Sp" && first.Name == "Before" && first.Src == root+".Decs.Before", what)
	check(pfx+"after_last", last.K == "Sp" && last.Name == "After" && last.Src == root+".Decs.After", what)
	check(pfx+"two_spaces", countK(tape, "Sp") == 2, what)
	// decoration events reading the node's own Decs, in order
	var own, inner []tapeEv
	for _, t := range tape {
		if t.K != "Dec" {
			continue
		}
		if strings.HasPrefix(t.Src, root+".Decs.") {
			own = append(own, t)
		} else {
			inner = append(inner, t)
		}
	}
	var names []string
	for _, t := range own {
		names = append(names, t.Name)
	}
	check(pfx+"points_in_struct_order_once", strings.Join(names, ",") == strings.Join(decs, ","), fmt.Sprintf("rendered %v, %sDecorations declares %v; %s", names, nt.Name, decs, what))
	okName, okNode := true, true
	for _, t := range append(append([]tapeEv{}, own...), inner...) {
		parts := strings.Split(t.Src, ".")
		if parts[len(parts)-1] != t.Name {
			okName = false
		}
		if t.Node != "out" {
			okNode = false
		}
	}
	check(pfx+"point_reads_its_field", okName, what)
	check(pfx+"rendered_on_result_node", okNode, what)
	// Start directly after Sp(Before) (an Init allocation may sit between), End directly before Sp(After) with end=true
	firstDec, lastDec := -1, -1
	for i, t := range tape {
		if t.K == "Dec" {
			if firstDec < 0 {
				firstDec = i
			}
			lastDec = i
		}
	}
	check(pfx+"start_first", firstDec == 1 && tape[firstDec].Name == "Start" && tape[firstDec].Src == root+".Decs.Start", what)
	endOK := lastDec >= 0 && tape[lastDec].Name == "End" && tape[lastDec].Src == root+".Decs.End" && tape[lastDec].End == "true"
	for i := lastDec + 1; endOK && i < len(tape)-1; i++ {
		if tape[i].K != "Pos" && tape[i].K != "Tok" { // e.g. BasicLit copies Kind after End; nothing rendered
			endOK = false
		}
	}
	check(pfx+"end_last_with_flag", endOK, what)
	onlyEnd := true
	for i, t := range tape {
		if t.K == "Dec" && i != lastDec && t.End != "false" {
			onlyEnd = false
		}
	}
	check(pfx+"end_flag_only_on_last", onlyEnd, what)
	// named points follow the token or child they are named for
	nodeIface := nodeIfaceOf(p, pkgDst)
	stt := nt.Named.Underlying().(*types.Struct)
	childField := map[string]bool{}
	for i := 0; i < stt.NumFields(); i++ {
		switch classifyField(stt.Field(i), nodeIface) {
		case fcNodeIface, fcNodePtr, fcListIface, fcListPtr:
			childField[stt.Field(i).Name()] = true
		}
	}
	posField := map[string]bool{}
	if at := p.astNamed(nt.Name); at != nil {
		as := at.Underlying().(*types.Struct)
		for i := 0; i < as.NumFields(); i++ {
			if isTokenPos(as.Field(i).Type()) {
				posField[as.Field(i).Name()] = true
			}
		}
	}
	withNamesake, placed := 0, 0
	var misplaced []string
	for i, t := range tape {
		if t.K != "Dec" || t.Name == "Start" || t.Name == "End" || !strings.HasPrefix(t.Src, root+".Decs.") {
			continue
		}
		if noNamesake[nt.Name+"."+t.Name] {
			continue
		}
		posWritten := false
		for _, o := range tape {
			if o.K == "Pos" && o.Field == t.Name {
				posWritten = true
			}
		}
		if !childField[t.Name] && !posWritten {
			continue
		}
		withNamesake++
		ok := false
		for j := i - 1; j >= 0; j-- {
			pv := tape[j]
			if pv.K == "Tok" || pv.K == "Lit" {
				continue // glued token / literal text
			}
			if pv.K == "Pos" && (childField[t.Name] || pv.Field != t.Name) && !(!childField[t.Name] && posWritten) {
				continue // a token between the child and its point
			}
			if pv.K == "Dec" && !strings.HasPrefix(pv.Src, root+".Decs.") {
				continue // signature decoration rendered at the same point (FuncDecl)
			}
			switch pv.K {
			case "Child", "List":
				parts := strings.Split(pv.Src, ".")
				ok = parts[len(parts)-1] == t.Name
			case "Pos":
				ok = pv.Field == t.Name
			}
			break
		}
		if ok {
			placed++
		} else {
			misplaced = append(misplaced, t.Name)
		}
	}
	// a token's position is taken at the token: the store of a position field is directly followed by the cursor advance
	// over that token (nothing is rendered and nothing else advances the cursor in between)
	var loose []string
	for i, t := range tape {
		if t.K != "Pos" {
			continue
		}
		if strings.HasPrefix(nt.Name, "Bad") && t.Field == "To" {
			// the one end position the restorer assigns: directly after the advance over the bad text
			if i == 0 || tape[i-1].K != "Tok" {
				loose = append(loose, "To not directly after the advance over the bad text")
			}
			continue
		}
		j := i + 1
		for j < len(tape) && tape[j].K == "Pos" {
			j++ // several fields of one token (e.g. a keyword and its operator position)
		}
		if j >= len(tape) || (tape[j].K != "Tok" && tape[j].K != "Lit") {
			nxt := "the end of the case"
			if j < len(tape) {
				nxt = tape[j].K + "(" + tape[j].Name + tape[j].Src + ")"
			}
			loose = append(loose, t.Field+" then "+nxt)
		}
	}
	check(pfx+"position_taken_at_its_token", len(loose) == 0, fmt.Sprintf("position stores not directly followed by the advance over their token: %v; %s", loose, what))
	check(pfx+"named_points_follow_namesake", len(misplaced) == 0, fmt.Sprintf("%d points with a namesake child/token, %d placed directly after it, misplaced %v; %s", withNamesake, placed, misplaced, what))
	// every child/list field rendered exactly once (the parent context strings name type and field)
	seen := map[string]int{}
	ctxOK := true
	for _, t := range tape {
		if t.K == "Child" || t.K == "List" {
			parts := strings.Split(t.Src, ".")
			f := parts[len(parts)-1]
			seen[f]++
			if t.Name != f || t.Parent != nt.Name {
				ctxOK = false
			}
		}
	}
	var missing []string
	for f := range childField {
		want := 1
		if nt.Name == "File" && (f == "Imports" || f == "Unresolved") {
			want = 0 // cross references into Decls / identifier lists, deliberately not restored
		}
		if nt.Name == "FuncDecl" && f == "Type" {
			want = 0 // rendered in line: its children are restored individually
		}
		if seen[f] != want {
			missing = append(missing, fmt.Sprintf("%s x%d", f, seen[f]))
		}
	}
	sort.Strings(missing)
	check(pfx+"children_once", len(missing) == 0, fmt.Sprintf("child fields not rendered exactly once: %v; %s", missing, what))
	if pfx == "" {
		check(pfx+"parent_context_strings", ctxOK, what)
	}
	// FuncDecl: the signature's decorations directly after the declaration's point of the same name
	if nt.Name == "FuncDecl" && pfx == "" {
		var inn []string
		okPlace := true
		for i, t := range tape {
			if t.K == "Dec" && strings.HasPrefix(t.Src, root+".Type.Decs.") {
				inn = append(inn, t.Name)
				prev := tape[i-1]
				wantPrev := t.Name
				if t.Name == "End" {
					wantPrev = "Results"
				}
				if prev.K != "Dec" || prev.Name != wantPrev || !strings.HasPrefix(prev.Src, root+".Decs.") || t.End != "false" {
					okPlace = false
				}
			}
		}
		var wantInner []string
		if ft, _ := fieldType(nt.Named, "Type"); ft != nil {
			wantInner = decorationFields(ft.Underlying().(*types.Pointer).Elem())
		}
		check("signature_points_in_order_once", strings.Join(inn, ",") == strings.Join(wantInner, ","), fmt.Sprintf("rendered %v want %v; %s", inn, wantInner, what))
		check("signature_points_placed", okPlace, what)
	} else if pfx == "" {
		check("no_foreign_decorations", len(inner) == 0, what)
	}
}
