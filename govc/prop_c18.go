package main

// C18: object and scope graphs survive decoration and optional restoration.
//
// The four memoised conversions are units of their own with property-strength postconditions
// (memo hit, registration in both maps before recursion, kind/name/data/declaration counterparts,
// scope nesting and membership); the generated cases that hold an object or scope reference
// (Ident.Obj, File.Scope, Package.Scope, Package.Imports) get "#graph:" obligations generated from
// the struct definitions; every other generated case must preserve the object-map invariants it
// is handed (the callee contract of the recursion relies on all 54 of them).

import (
	"regexp"
	"strings"
)

var reGraph = regexp.MustCompile(`#graph:|#(ensures|join\d+\.\d+|loop\d+-(entry|preserve(\.\d+)?)):(foreach_)?(objects|objects_grow|scopes_grow|back_objects_grow|back_scopes_grow|robjects_grow|rscopes_grow|rback_objects_grow|rback_scopes_grow|node_decl_grows|node_data_grows|deferred_keys_fresh|registered|scope_kept|imports_so_far|imports_visited|imports_members|imports_names|imports_extras_off)$|#call:.*:objects@\d+$`)

func init() {
	convs := []string{fd("decorateObject"), fd("decorateScope"), fr("restoreObject"), fr("restoreScope")}
	register(&Property{
		ID:       "C18",
		Title:    "Object and scope graphs survive decoration and optional restoration",
		Packages: []string{pkgDecorator},
		Build: func(p *Program, tier string) ([]*Unit, []UnitError) {
			us, es := buildFuncUnits(p, convs, nil)
			us2, es2 := buildDecorateNode(p, tier)
			us3, es3 := buildRestoreNode(p, tier, "")
			us4, es4 := buildFuncUnits(p, []string{fd("decorateSelectorExpr")}, nil)
			us = append(append(append(us, us2...), us3...), us4...)
			es = append(append(append(es, es2...), es3...), es4...)
			return us, es
		},
		Select: func(n string) bool {
			for _, c := range []string{"decorateObject#", "decorateScope#", "restoreObject#", "restoreScope#"} {
				if strings.Contains(n, c) {
					return true
				}
			}
			return reGraph.MatchString(n)
		},
		Siblings: "C03 (fields), C04 (tape), C06 (duplicates), C11 (node maps), C12 (position space), C17 (errors) — other labels of the same per-case units",
		Assumptions: []string{
			"isomorphism is carried per object: every conversion returns the map entry, a new entry is a fresh object registered in both maps before anything it refers to is converted, and no call changes an existing entry; injectivity follows from freshness, the global statement by induction over the (possibly cyclic) graph, which is not machine-checked as one formula",
			"an object reached again while its own conversion is still running is returned through the memo entry with its declaration and data not yet filled in; the postconditions speak about the completed call only",
			"partial correctness: termination of the recursion on cyclic graphs rests on the memo hit and is not proved",
		},
		NotDecided: []string{
			"dst.NewPackage against ast.NewPackage (resolve.go is a fork compared with a library that is outside the verifier's reach)",
			"the deferred pass of RestoreFile that fills Decl/Data of restored objects from nodeDecl/nodeData: it ranges over maps that the calls inside the loop may extend",
			"Object.Type is not copied (documented placeholder)",
		},
	})
}
