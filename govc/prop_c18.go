package main

// C18: object and scope graphs survive decoration and optional restoration.
//
// The four memoised conversions are units of their own with property-strength postconditions
// (memo hit, registration in both maps before recursion, kind/name/data/declaration counterparts,
// scope nesting and membership); the generated cases that hold an object or scope reference
// (Ident.Obj, File.Scope, Package.Scope, Package.Imports) get "#graph:" obligations generated from
// the struct definitions; every other generated case must preserve the object-map invariants it
// is handed (the callee contract of the recursion relies on all 54 of them).

import (
	"fmt"
	"go/token"
	"go/types"
	"regexp"
	"sort"
	"strings"

	"golang.org/x/tools/go/ssa"
)

var reGraph = regexp.MustCompile(`#graph:|#(ensures|join\d+\.\d+|loop\d+-(entry|preserve(\.\d+)?)):(foreach_)?(objects|objects_grow|scopes_grow|back_objects_grow|back_scopes_grow|robjects_grow|rscopes_grow|rback_objects_grow|rback_scopes_grow|node_decl_grows|node_data_grows|deferred_keys_fresh|registered|scope_kept|imports_so_far|imports_visited|imports_members|imports_names|imports_extras_off)$|#call:.*:objects@\d+$`)

func init() {
	convs := []string{fd("decorateObject"), fd("decorateScope"), fr("restoreObject"), fr("restoreScope")}
	register(&Property{
		ID:       "C18",
		Title:    "Object and scope graphs survive decoration and optional restoration",
		Packages: []string{pkgDecorator, pkgDst},
		Extra:    []string{"go/ast"},
		Build: func(p *Program, tier string) ([]*Unit, []UnitError) {
			wo := map[string]*UnitOpts{}
			for _, c := range convs {
				wo[c] = writeOnceOpts()
			}
			us, es := buildFuncUnits(p, convs, wo)
			us2, es2 := buildDecorateNode(p, tier)
			us3, es3 := buildRestoreNode(p, tier, "")
			us4, es4 := buildFuncUnits(p, []string{fd("decorateSelectorExpr"), pkgDst + ".NewPackage"}, nil)
			// the same contract on the original, go/ast.NewPackage
			if _, ok := p.pkgs["go/ast"]; ok {
				for _, pr := range [][2]string{{pkgDst + ".NewPackage", "go/ast.NewPackage"}, {pkgDst + ".callback.importer", "go/ast.callback.importer"}} {
					if sc := p.db.Funcs[pr[0]]; sc != nil {
						if _, have := p.db.Funcs[pr[1]]; !have {
							c := *sc
							c.Key, c.Pkg = pr[1], "go/ast"
							p.db.Funcs[pr[1]] = &c
						}
					}
				}
				if u, err := p.verifyFunc("go/ast.NewPackage", &UnitOpts{TypeRename: [2]string{"dst.", "ast."}}); err != nil {
					es4 = append(es4, UnitError{"ast.NewPackage", err.Error()})
				} else {
					us4 = append(us4, u)
				}
			}
			us5, es5 := buildRestoreFile(p, tier)
			us4, es4 = append(us4, us5...), append(es4, es5...)
			us6, es6 := buildForkCompare(p)
			us4, es4 = append(us4, us6...), append(es4, es6...)
			us = append(append(append(us, us2...), us3...), us4...)
			es = append(append(append(es, es2...), es3...), es4...)
			return us, es
		},
		Select: func(n string) bool {
			for _, c := range []string{"decorateObject#", "decorateScope#", "restoreObject#", "restoreScope#", "NewPackage#"} { // NewPackage# includes the fork comparison
				if strings.Contains(n, c) {
					return true
				}
			}
			return reGraph.MatchString(n)
		},
		Siblings: "C03 (fields), C04 (tape), C06 (duplicates), C11 (node maps), C12 (position space), C17 (errors) — other labels of the same per-case units",
		Assumptions: []string{
			"isomorphism is carried per object: every conversion returns the map entry, a new entry is a fresh object registered in both maps before anything it refers to is converted, and no call changes an existing entry; injectivity follows from freshness, the global statement by induction over the (possibly cyclic) graph, which is not machine-checked as one formula",
			"an object reached again while its own conversion is still running is returned through the memo entry with its declaration and data not yet filled in; the postconditions speak about the completed call only",
			"partial correctness: termination of the recursion on cyclic graphs rests on the memo hit and is not proved",
		},
		NotDecided: []string{
			"dst.NewPackage against ast.NewPackage beyond one shared contract (the returned scope is nested in the universe, the package holds the files given): that redeclaration and undeclared-name reports coincide is not decided",
			"the deferred pass of RestoreFile: each link it stores is the node map's counterpart of the recorded dst node (decided); that it reaches every recorded object is not (it ranges over maps that the calls inside the loop may extend)",
			"Object.Type is not copied (documented placeholder)",
		},
	})
}

// writeOnceOpts: an object or scope map entry is written once. The conversions register a new
// object before converting what it refers to, so that a cycle (object -> declaring node ->
// identifier -> the same object) comes back to the memo entry; registering later would let the
// inner conversion create and register a second counterpart that the outer one then overwrites —
// two identifiers sharing an ast object would end up with different dst objects. Obligation at
// every update of an object/scope map: the key is not in the map yet.
func writeOnceOpts() *UnitOpts {
	opts := &UnitOpts{Trace: true}
	opts.AtExit = func(ex *Exec, frm *frame, g string, st *State, res []Val) {
		n := 0
		for i := range ex.trace {
			ev := &ex.trace[i]
			if ev.Kind != "mapupdate" || ev.Depth != 0 || ev.Pre == nil {
				continue
			}
			mt, ok := ev.Args[0].Typ.Underlying().(*types.Map)
			if !ok {
				continue
			}
			kt := typeKey(mt.Key())
			if !strings.HasSuffix(kt, ".Object") && !strings.HasSuffix(kt, ".Scope") {
				continue
			}
			n++
			_, dk := ex.mapKeys(mt)
			goal := not(sel(sel(ex.u.get(ev.Pre, dk), ev.Args[0].T), ev.Args[1].T))
			ex.oblige(fmt.Sprintf("%s#graph:entry_written_once@%d", shortFn(frm.fn), n), "schema", ev.Guard, goal,
				"an object/scope map entry is created once and never overwritten (key type "+kt+")", "")
		}
	}
	return opts
}

// ---- resolve.go is a fork of go/ast's NewPackage: "positions aside" the two must make the same calls ----

// forkTape: the calls a function makes to its own package (and through its function-typed
// parameters), in source order, with receiver and argument texts; position-typed operands and the
// calls that only compute positions are dropped.
func forkTape(fn *ssa.Function) []string {
	type item struct {
		pos  token.Pos
		text string
	}
	var items []item
	isPos := func(t types.Type) bool {
		n, ok := t.(*types.Named)
		return ok && n.Obj().Name() == "Pos" && n.Obj().Pkg() != nil && n.Obj().Pkg().Path() == "go/token"
	}
	for _, b := range fn.Blocks {
		for _, in := range b.Instrs {
			c, ok := in.(*ssa.Call)
			if !ok {
				continue
			}
			name := ""
			if callee := c.Call.StaticCallee(); callee != nil {
				if callee.Pkg != fn.Pkg && (callee.Pkg == nil || callee.Pkg.Pkg.Path() != "fmt") {
					continue // other packages: position lookups, strconv, sorting of the error list
				}
				name = callee.Name()
				if name == "Pos" || name == "End" {
					continue
				}
			} else if c.Call.IsInvoke() {
				continue
			} else {
				name = "call " + argText(c.Call.Value)
			}
			var args []string
			for _, a := range c.Call.Args {
				if isPos(a.Type()) {
					continue
				}
				t := argText(a)
				if strings.HasPrefix(t, "?") {
					t = "_"
				}
				if strings.HasPrefix(t, "\"") && strings.Contains(t, "redeclared in this block") {
					t = "\"… redeclared in this block\"" // go/ast appends the previous position to the message
				}
				args = append(args, t)
			}
			if name == "Sprintf" && len(args) > 0 && strings.Contains(args[0], "previous declaration") {
				continue
			}
			items = append(items, item{c.Pos(), name + "(" + strings.Join(args, ", ") + ")"})
		}
	}
	sort.Slice(items, func(i, j int) bool { return items[i].pos < items[j].pos })
	var out []string
	for _, it := range items {
		out = append(out, it.text)
	}
	return out
}

func buildForkCompare(p *Program) ([]*Unit, []UnitError) {
	pairs := [][2]string{
		{pkgDst + ".NewPackage", "go/ast.NewPackage"},
		{pkgDst + ".(*pkgBuilder).declare", "go/ast.(*pkgBuilder).declare"},
		{pkgDst + ".resolve", "go/ast.resolve"},
		{pkgDst + ".(*Scope).Insert", "go/ast.(*Scope).Insert"},
		{pkgDst + ".(*Scope).Lookup", "go/ast.(*Scope).Lookup"},
		{pkgDst + ".NewScope", "go/ast.NewScope"},
	}
	ex := p.newExec("NewPackage/fork")
	for _, pr := range pairs {
		d, a := p.fns[pr[0]], p.fns[pr[1]]
		name := "NewPackage#fork:same_calls_as_go_ast:" + shortKey(pr[0])
		goal, what := "true", ""
		switch {
		case d == nil || a == nil:
			goal, what = "false", "function not found: "+pr[0]+" / "+pr[1]
		default:
			dt, at := forkTape(d), forkTape(a)
			if strings.Join(dt, " ; ") != strings.Join(at, " ; ") {
				goal = "false"
			}
			what = "dst: " + strings.Join(dt, " ; ") + "  ||  go/ast: " + strings.Join(at, " ; ")
		}
		o := ex.oblige(name, "frame", "true", goal, what, "")
		o.Guard = "true"
		if d != nil {
			ex.unit.addFunc(d.String())
		}
	}
	return []*Unit{ex.unit}, nil
}
