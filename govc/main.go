package main

import (
	"fmt"
	"os"
	"sort"
	"strings"
)

func usage() {
	fmt.Fprintln(os.Stderr, `usage:
  govc check <PROPERTY> [--tier quick|thorough] [--replay file]
  govc unit <pkg-pattern> <function-key>       (development: verify one contracted function)
  govc ssa <pkg-pattern> <function-key>        (development: dump SSA)`)
	os.Exit(2)
}

func main() {
	if len(os.Args) < 2 {
		usage()
	}
	switch os.Args[1] {
	case "ssa":
		if len(os.Args) < 4 {
			usage()
		}
		var extra []string
		if !strings.HasPrefix(os.Args[2], "github.com/dave/dst") {
			extra = []string{os.Args[2]}
		}
		p, err := loadProgram([]string{os.Args[2]}, extra)
		if err != nil {
			fmt.Fprintln(os.Stderr, err)
			os.Exit(2)
		}
		fn := p.fns[os.Args[3]]
		if fn == nil {
			var ks []string
			for k := range p.fns {
				if strings.Contains(k, os.Args[3]) {
					ks = append(ks, k)
				}
			}
			sort.Strings(ks)
			fmt.Println("not found; candidates:", strings.Join(ks, "\n  "))
			os.Exit(2)
		}
		fn.WriteTo(os.Stdout)
	case "audit":
		os.Exit(auditMain())
	case "unit":
		if len(os.Args) < 4 {
			usage()
		}
		p, err := loadProgram([]string{os.Args[2]}, nil)
		if err != nil {
			fmt.Fprintln(os.Stderr, err)
			os.Exit(2)
		}
		fmt.Printf("loaded in %d ms; emb types: %v\n", p.loadMs, keysOf(p.emb))
		var uo *UnitOpts
		if len(os.Args) > 4 {
			uo = &UnitOpts{ExtraRequires: os.Args[4:], NameSuffix: "/extra"}
		}
		for _, e := range strings.Split(os.Getenv("GOVC_EMB"), ",") {
			if e != "" {
				p.embAllowed[e] = true
			}
		}
		unit, err := p.verifyFunc(os.Args[3], uo)
		if err != nil {
			fmt.Println("ERROR:", err)
			if unit == nil {
				os.Exit(2)
			}
		}
		for _, w := range unit.Warnings {
			fmt.Println("warning:", w)
		}
		res := runObligations([]*Unit{unit}, RunOpts{Timeout: 10, Seed: 0, OutDir: "/tmp/govc-dev", Parallel: 5})
		bad := 0
		for _, r := range res {
			st := "ok  "
			if !r.OK {
				st = "FAIL"
				bad++
			}
			fmt.Printf("%s %-70s %-7s %-8s %5dms %v\n", st, r.Obl.Name, r.Res.Verdict, r.Res.Solver, r.Res.Ms, r.Res.Raw)
		}
		fmt.Printf("%d obligations, %d failed\n", len(res), bad)
	case "check":
		os.Exit(checkMain(os.Args[2:]))
	default:
		usage()
	}
}

func keysOf(m map[string]bool) []string {
	var ks []string
	for k := range m {
		ks = append(ks, k)
	}
	sort.Strings(ks)
	return ks
}
