package main

// Calls: builtins, contracted callees (assert requires / havoc modifies / assume ensures),
// inlining of uncontracted repo functions and closures, abstraction of everything else.

import (
	"fmt"
	"go/constant"
	"go/types"
	"os"
	"sort"
	"strings"
	"sync"

	"golang.org/x/tools/go/ssa"
)

func constantStringVal(c *ssa.Const) string { return constant.StringVal(c.Value) }

// pureExternal: external functions whose only effect is their result (result havoced, heap kept).
var pureExternalPrefixes = []string{"strings.", "strconv.", "fmt.Sprintf", "fmt.Sprint", "fmt.Errorf", "unicode.", "utf8.", "path.", "filepath.",
	"(go/token.Pos).", "(go/token.Token).", "errors.", "sort.SearchInts", "reflect.TypeOf", "(reflect.Type).", "(*go/token.File).Name", "(*go/token.File).Base", "(*go/token.File).Size"}

func isPureExternal(name string) bool {
	// position accessors of go/ast nodes only read the node
	if strings.HasPrefix(name, "(*go/ast.") && (strings.HasSuffix(name, ").Pos") || strings.HasSuffix(name, ").End")) {
		return true
	}
	for _, p := range pureExternalPrefixes {
		if strings.HasPrefix(name, p) {
			return true
		}
	}
	return false
}

func (ex *Exec) call(fr *frame, in *ssa.Call, g string, s *State) string {
	g, res := ex.callCommon(fr, &in.Call, in, g, s)
	res.Typ = in.Type()
	fr.regs[in] = res
	return g
}

func (ex *Exec) callCommon(fr *frame, c *ssa.CallCommon, site ssa.Instruction, g string, s *State) (string, Val) {
	u := ex.u
	var args []Val
	for _, a := range c.Args {
		args = append(args, ex.value(fr, a, s))
	}
	if b, ok := c.Value.(*ssa.Builtin); ok {
		return ex.builtin(fr, b, c, args, g, s, site)
	}
	var callee *ssa.Function
	var bindings []Val
	if c.IsInvoke() {
		recv := ex.value(fr, c.Value, s)
		if recv.Refl != nil && recv.Refl.Kind == "type" {
			// methods of reflect.Type (Elem, Kind, ...): pure, no metadata modelled
			res := c.Signature().Results()
			if res.Len() == 1 && typeKey(res.At(0).Type()) == "reflect.Type" {
				return g, Val{T: u.freshConst("rtype", SIface), Typ: res.At(0).Type(), Refl: &reflVal{Kind: "type"}}
			}
			return g, ex.freshResult(res, s, g)
		}
		if ex.onCall != nil {
			if h, r := ex.onCall(fr, c, nil, append([]Val{recv}, args...), s, g); h {
				return g, r
			}
		}
		// interface method with a contract (keyed by the interface type)?
		key := ifaceMethodKey(c)
		if fc, ok := ex.db.Funcs[key]; ok {
			if ex.traceOn {
				ex.trace = append(ex.trace, Event{Kind: "call", Guard: g, Instr: site, Callee: key, Args: append([]Val{recv}, args...), St: s, Depth: len(ex.stack) - 1})
				ti := len(ex.trace) - 1
				og, ov := ex.applyContract(fr, fc, nil, c.Signature(), append([]Val{recv}, args...), ifaceParamNames(c), g, s, site, key)
				ex.trace[ti].Res = &ov
				return og, ov
			}
			return ex.applyContract(fr, fc, nil, c.Signature(), append([]Val{recv}, args...), ifaceParamNames(c), g, s, site, key)
		}
		ex.warn("dynamic call %s.%s abstracted (result and heap havoced)", typeKey(c.Value.Type()), c.Method.Name())
		ex.havocAll(s)
		return g, ex.freshResult(c.Signature().Results(), s, g)
	}
	callee = c.StaticCallee()
	if callee == nil {
		fv := ex.value(fr, c.Value, s)
		if cv, ok := closures[fv.T]; ok {
			callee, bindings = cv.fn, cv.bindings
		} else if f, ok := funcVals[fv.T]; ok {
			callee = f
		} else {
			if ex.onCall != nil {
				if h, r := ex.onCall(fr, c, nil, args, s, g); h {
					return g, r
				}
			}
			// function-typed value with a callback contract keyed by parameter/field name
			if key := ex.callbackKey(fr, c.Value); key != "" {
				if fc, ok := ex.db.Funcs[key]; ok {
					if ex.traceOn {
						ex.trace = append(ex.trace, Event{Kind: "call", Guard: g, Instr: site, Callee: key, Args: args, St: s.clone(), Depth: len(ex.stack) - 1})
						ti := len(ex.trace) - 1
						og, ov := ex.applyContract(fr, fc, nil, c.Signature(), args, nil, g, s, site, key)
						ex.trace[ti].Res = &ov
						return og, ov
					}
					return ex.applyContract(fr, fc, nil, c.Signature(), args, nil, g, s, site, key)
				}
			}
			ex.warn("call of unknown function value %s abstracted (result and heap havoced)", c.Value.Name())
			ex.havocAll(s)
			return g, ex.freshResult(c.Signature().Results(), s, g)
		}
	} else if mc, ok := c.Value.(*ssa.MakeClosure); ok {
		for _, b := range mc.Bindings {
			bindings = append(bindings, ex.value(fr, b, s))
		}
	}
	if ex.onCall != nil {
		if h, r := ex.onCall(fr, c, callee, args, s, g); h {
			return g, r
		}
	}
	key := ssaFuncKey(callee)
	if fc, ok := ex.db.Funcs[key]; ok && fc.Attrs["inline"] != "true" {
		if ex.traceOn {
			ex.trace = append(ex.trace, Event{Kind: "call", Guard: g, Instr: site, Callee: key, Args: args, St: s.clone(), Depth: len(ex.stack) - 1})
			ti := len(ex.trace) - 1
			og, ov := ex.applyContract(fr, fc, callee, callee.Signature, args, nil, g, s, site, key)
			ex.trace[ti].Res = &ov
			return og, ov
		}
		return ex.applyContract(fr, fc, callee, callee.Signature, args, nil, g, s, site, key)
	}
	name := callee.String()
	ti := -1
	if ex.traceOn {
		ex.trace = append(ex.trace, Event{Kind: "call", Guard: g, Instr: site, Callee: name, Args: args, St: s, Depth: len(ex.stack) - 1})
		ti = len(ex.trace) - 1
	}
	// an inlined callee's results belong to the call event too (error propagation looks at them)
	inlined := func(og string, ov Val) (string, Val) {
		if ti >= 0 {
			vv := ov
			ex.trace[ti].Res = &vv
		}
		return og, ov
	}
	if name == "sort.Slice" || name == "sort.SliceStable" {
		if ex.modelSortSlice(fr, c, args, g, s) {
			return g, Val{}
		}
	}
	if r, ok := ex.modelExternal(name, callee, args, g, s); ok {
		return g, r
	}
	if strings.HasPrefix(name, "reflect.") || strings.HasPrefix(name, "(reflect.") {
		if r, g2, ok := ex.modelReflect(name, callee, args, g, s); ok {
			return g2, r
		}
	}
	if len(callee.Blocks) > 0 && ex.inRepo(callee) {
		for _, f := range ex.stack {
			if f == callee {
				ex.failf("recursive call of %s needs a contract", name)
			}
		}
		if len(ex.stack) > ex.maxInline {
			ex.failf("inlining depth exceeded at %s", name)
		}
		return inlined(ex.inline(callee, args, bindings, g, s))
	}
	if len(callee.Blocks) > 0 && bindings != nil {
		return inlined(ex.inline(callee, args, bindings, g, s))
	}
	setRes := func(v Val) Val {
		if ex.traceOn && len(ex.trace) > 0 && ex.trace[len(ex.trace)-1].Instr == site {
			vv := v
			ex.trace[len(ex.trace)-1].Res = &vv
		}
		return v
	}
	if name == "fmt.Errorf" {
		// constant format containing %w: the result wraps the operand at that verb's position (assumed contract of fmt)
		r := ex.freshResult(callee.Signature.Results(), s, g)
		u.fact(implies(g, not(eq(r.T, nilIface))))
		if call, ok := site.(*ssa.Call); ok {
			if fc, ok := call.Call.Args[0].(*ssa.Const); ok {
				if k := verbIndex(constantStringVal(fc), 'w'); k >= 0 && len(args) > 1 {
					u.declareFun("spec$wraps", []string{SIface, SIface}, SBool)
					key := "A$iface"
					u.keySort(key, arr2(SIface))
					elem := sel(sel(u.get(s, key), sArr(args[1].T)), cellIdx(sOff(args[1].T), intLit(int64(k))))
					u.fact(implies(g, app("spec$wraps", r.T, elem)))
				}
			}
		}
		u.assume("fmt.Errorf with a constant format containing %w wraps that operand")
		return g, setRes(r)
	}
	if isPureExternal(strings.TrimPrefix(name, "(*")) || isPureExternal(name) {
		u.assume("external " + name + " is pure: result unconstrained, heap unchanged")
		return g, setRes(ex.freshResult(callee.Signature.Results(), s, g))
	}
	ex.warn("external call %s abstracted (result and heap havoced)", name)
	ex.havocAll(s)
	return g, setRes(ex.freshResult(callee.Signature.Results(), s, g))
}

func (ex *Exec) inRepo(fn *ssa.Function) bool {
	p := fn.Pkg
	if p == nil && fn.Parent() != nil {
		p = fn.Parent().Pkg
	}
	if p == nil {
		return false
	}
	if strings.HasPrefix(p.Pkg.Path(), "github.com/dave/dst") || strings.Contains(p.Pkg.Path(), "astutil") {
		return true
	}
	// a reference implementation verified through the same pipeline (go/ast.NewPackage): callees of its own package
	if len(ex.stack) > 0 && ex.stack[0].Pkg != nil && ex.stack[0].Pkg == p {
		return true
	}
	return false
}

func ssaFuncKey(fn *ssa.Function) string {
	if fn == nil {
		return ""
	}
	pkg := ""
	if fn.Pkg != nil {
		pkg = fn.Pkg.Pkg.Path()
	} else if fn.Parent() != nil {
		// anonymous function: parentkey$N
		return ssaFuncKey(fn.Parent()) + "$" + strings.TrimPrefix(fn.Name(), fn.Parent().Name()+"$")
	}
	if recv := fn.Signature.Recv(); recv != nil {
		t := recv.Type()
		ptr := false
		if p, ok := t.(*types.Pointer); ok {
			ptr = true
			t = p.Elem()
		}
		if n, ok := t.(*types.Named); ok {
			if pkg == "" && n.Obj().Pkg() != nil {
				pkg = n.Obj().Pkg().Path()
			}
			return funcKey(pkg, ptr, n.Obj().Name(), fn.Name())
		}
	}
	return pkg + "." + fn.Name()
}

func ifaceMethodKey(c *ssa.CallCommon) string {
	t := c.Value.Type()
	if n, ok := t.(*types.Named); ok && n.Obj().Pkg() != nil {
		return funcKey(n.Obj().Pkg().Path(), false, n.Obj().Name(), c.Method.Name())
	}
	return "iface." + typeKey(t) + "." + c.Method.Name()
}

func ifaceParamNames(c *ssa.CallCommon) []string { return nil }

// callbackKey: contract key for calls through function-typed fields/params: "<pkg>.callback.<name>".
func (ex *Exec) callbackKey(fr *frame, v ssa.Value) string {
	pkg := ""
	if fr.fn.Pkg != nil {
		pkg = fr.fn.Pkg.Pkg.Path()
	}
	switch x := v.(type) {
	case *ssa.UnOp:
		switch a := x.X.(type) {
		case *ssa.FieldAddr:
			st := deref(a.X.Type())
			return pkg + ".callback." + st.Underlying().(*types.Struct).Field(a.Field).Name()
		case *ssa.Alloc:
			return pkg + ".callback." + a.Comment
		}
	case *ssa.Parameter:
		return pkg + ".callback." + x.Name()
	}
	return ""
}

func (ex *Exec) freshResult(res *types.Tuple, s *State, g string) Val {
	u := ex.u
	mk := func(t types.Type) Val {
		if isStruct(t) {
			v := Val{Typ: t}
			st := t.Underlying().(*types.Struct)
			for i := 0; i < st.NumFields(); i++ {
				v.Fields = append(v.Fields, Val{T: u.freshConst("res", sortOf(st.Field(i).Type())), Typ: st.Field(i).Type()})
			}
			return v
		}
		v := Val{T: u.freshConst("res", sortOf(t)), Typ: t}
		u.fact(implies(g, ex.wf(v, s)))
		return v
	}
	switch res.Len() {
	case 0:
		return Val{}
	case 1:
		return mk(res.At(0).Type())
	}
	out := Val{Typ: res}
	for i := 0; i < res.Len(); i++ {
		out.Tuple = append(out.Tuple, mk(res.At(i).Type()))
	}
	return out
}

// ---- builtins ----

func (ex *Exec) builtin(fr *frame, b *ssa.Builtin, c *ssa.CallCommon, args []Val, g string, s *State, site ssa.Instruction) (string, Val) {
	u := ex.u
	switch b.Name() {
	case "len":
		switch sortOfSafe(c.Args[0].Type()) {
		case SSlice:
			return g, intVal(sLen(args[0].T))
		case SStr:
			return g, intVal(app("strlen", args[0].T))
		}
		if _, ok := c.Args[0].Type().Underlying().(*types.Map); ok {
			u.declareFun("maplen", []string{SInt}, SInt)
			ex.warn("len(map) is uninterpreted")
			r := u.freshConst("maplen", SInt)
			u.fact(app(">=", r, "0"))
			return g, intVal(r)
		}
	case "cap":
		return g, intVal(sCap(args[0].T))
	case "append":
		return g, ex.appendModel(args[0], args[1], c.Args[0].Type(), g, s)
	case "copy":
		et := c.Args[0].Type().Underlying().(*types.Slice).Elem()
		if isStruct(et) || sortOfSafe(c.Args[1].Type()) == SStr {
			ex.warn("copy() of struct elements / from a string abstracted")
			for _, lf := range leaves(et) {
				key := "A$" + elemKey(et)
				if len(lf.Path) > 0 {
					key += "$" + strings.Join(lf.Path, ".")
				}
				u.keySort(key, arr2(sortOf(lf.Typ)))
				u.havoc(s, key)
			}
			return g, intVal(u.freshConst("copied", SInt))
		}
		// Go spec: copies min(len(dst), len(src)) elements, as if through a temporary (memmove): the source cells are
		// read before any destination cell is written, so overlapping slices are handled
		srt := sortOf(et)
		key := "A$" + elemKey(et)
		u.keySort(key, arr2(srt))
		A := u.get(s, key)
		ds := u.define("copy.dst", SSlice, args[0].T)
		ss := u.define("copy.src", SSlice, args[1].T)
		n := u.define("copy.n", SInt, ite(app("<=", sLen(ds), sLen(ss)), sLen(ds), sLen(ss)))
		j := "j!c"
		body := ite(and(app("<=", sOff(ds), j), app("<", j, plus(sOff(ds), n))), sel(sel(A, sArr(ss)), cellIdx(sOff(ss), minus(j, sOff(ds)))), sel(sel(A, sArr(ds)), j))
		row := u.defineArrayDual("copy.row", arr1(srt), fmt.Sprintf("(lambda ((%s Int)) %s)", j, body),
			[]string{fmt.Sprintf("(forall ((%s Int)) (! (= (select $SELF %s) %s) :pattern ((select $SELF %s))))", j, j, body, j)})
		u.set(s, key, arr2(srt), ite(app("<=", n, "0"), A, store(A, sArr(ds), row)))
		return g, intVal(n)
	case "delete":
		ex.mapDelete(s, args[0], args[1])
		return g, Val{}
	case "print", "println":
		return g, Val{}
	case "recover":
		if !ex.recovering {
			// no panic is in flight on a normally terminating path
			return g, Val{T: "(mkI 0 0)", Typ: c.Signature().Results().At(0).Type()}
		}
		rv := u.freshConst("recovered", SIface)
		u.fact(implies(g, not(eq(rv, "(mkI 0 0)"))))
		return g, Val{T: rv, Typ: c.Signature().Results().At(0).Type()}
	case "ssa:deferstack":
		return g, Val{T: "0", Typ: c.Signature().Results().At(0).Type()}
	case "ssa:wrapnilchk":
		return g, args[0]
	case "min", "max":
		op := "<="
		if b.Name() == "max" {
			op = ">="
		}
		return g, Val{T: ite(app(op, args[0].T, args[1].T), args[0].T, args[1].T), Typ: args[0].Typ}
	}
	ex.failf("builtin %s", b.Name())
	return g, Val{}
}

// appendModel: Go-spec append(s, t...). In place when len+n <= cap (same backing array, cells
// [off+len, off+len+n) written), otherwise a fresh array holding a copy.
func (ex *Exec) appendModel(sv, tv Val, st types.Type, g string, s *State) Val {
	u := ex.u
	et := st.Underlying().(*types.Slice).Elem()
	if isStruct(et) {
		return ex.appendStructModel(sv, tv, st, g, s)
	}
	if sortOfSafe(tv.Typ) == SStr {
		ex.warn("append([]byte, string...) abstracted")
		key := "A$" + elemKey(et)
		u.keySort(key, arr2(sortOf(et)))
		u.havoc(s, key)
		return Val{T: u.freshConst("app", SSlice), Typ: st}
	}
	srt := sortOf(et)
	key := "A$" + elemKey(et)
	u.keySort(key, arr2(srt))
	A := u.get(s, key)
	sT := u.define("app.s", SSlice, sv.T)
	tT := u.define("app.t", SSlice, tv.T)
	n := sLen(tT)
	ln := sLen(sT)
	fits := u.define("app.fits", SBool, app("<=", plus(ln, n), sCap(sT)))
	u.keySort("next", SInt)
	next := u.get(s, "next")
	newArr := u.define("app.arr", SInt, ite(fits, sArr(sT), next))
	newOff := ite(fits, sOff(sT), "0")
	capN := u.freshConst("app.cap", SInt)
	oldRowS := sel(A, sArr(sT))
	oldRowT := sel(A, sArr(tT))
	row := ex.appendRow(srt, fits, sT, tT, ln, n, oldRowS, oldRowT)
	u.fact(implies(and(g, not(fits)), app(">=", capN, plus(ln, n))))
	u.set(s, key, arr2(srt), ite(eq(n, "0"), A, store(A, newArr, row))) // appending nothing writes nothing
	u.set(s, "next", SInt, ite(fits, next, plus(next, "1")))
	u.fact(implies(and(g, not(fits)), eq(app("reftag", next), "0")))
	res := mkS(newArr, newOff, plus(ln, n), ite(fits, sCap(sT), capN))
	// append(s) with nothing to add returns s itself
	res = ite(eq(n, "0"), sT, res)
	return Val{T: u.define("app.res", SSlice, res), Typ: st}
}

func (ex *Exec) appendStructModel(sv, tv Val, st types.Type, g string, s *State) Val {
	u := ex.u
	et := st.Underlying().(*types.Slice).Elem()
	sT := u.define("app.s", SSlice, sv.T)
	tT := u.define("app.t", SSlice, tv.T)
	n := sLen(tT)
	ln := sLen(sT)
	fits := u.define("app.fits", SBool, app("<=", plus(ln, n), sCap(sT)))
	u.keySort("next", SInt)
	next := u.get(s, "next")
	newArr := u.define("app.arr", SInt, ite(fits, sArr(sT), next))
	newOff := ite(fits, sOff(sT), "0")
	capN := u.freshConst("app.cap", SInt)
	for _, lf := range leaves(et) {
		srt := sortOf(lf.Typ)
		key := "A$" + elemKey(et) + "$" + strings.Join(lf.Path, ".")
		u.keySort(key, arr2(srt))
		A := u.get(s, key)
		oldRowS := sel(A, sArr(sT))
		oldRowT := sel(A, sArr(tT))
		row := ex.appendRow(srt, fits, sT, tT, ln, n, oldRowS, oldRowT)
		u.set(s, key, arr2(srt), ite(eq(n, "0"), A, store(A, newArr, row)))
	}
	u.fact(implies(and(g, not(fits)), app(">=", capN, plus(ln, n))))
	u.set(s, "next", SInt, ite(fits, next, plus(next, "1")))
	res := mkS(newArr, newOff, plus(ln, n), ite(fits, sCap(sT), capN))
	res = ite(eq(n, "0"), sT, res)
	return Val{T: u.define("app.res", SSlice, res), Typ: st}
}

// ---- inlining ----

func (ex *Exec) inline(callee *ssa.Function, args []Val, bindings []Val, g string, s *State) (string, Val) {
	fr := ex.newFrame(callee)
	fr.entry = s.clone()
	// a contract marked `attr inline` contributes loop invariants (and exit clauses) to the inlined body
	if fc := ex.db.Funcs[ssaFuncKey(callee)]; fc != nil && fc.Attrs["inline"] == "true" {
		fr.contract = fc
	}
	for i, p := range callee.Params {
		if i < len(args) {
			fr.regs[p] = args[i]
			fr.params[p.Name()] = args[i]
		}
	}
	for i, fv := range callee.FreeVars {
		if i < len(bindings) {
			fr.regs[fv] = bindings[i]
		}
	}
	// loops inside inlined functions use their own contract's loop invariants if one exists under attr inline
	og, os, res := ex.execBody(fr, s, g)
	// copy the merged state back into s
	s.vars = os.vars
	s.ptrs = os.ptrs
	if og == "false" {
		return "false", Val{}
	}
	switch len(res) {
	case 0:
		return og, Val{}
	case 1:
		return og, res[0]
	}
	return og, Val{Typ: callee.Signature.Results(), Tuple: res}
}

// ---- contract application at a call site ----

func (ex *Exec) applyContract(fr *frame, fc *FuncContract, callee *ssa.Function, sig *types.Signature, args []Val, names []string, g string, s *State, site ssa.Instruction, key string) (string, Val) {
	u := ex.u
	if fc.Trusted {
		ex.unit.addTrusted(key)
	} else if callee != nil && callee.Blocks != nil {
		noteReliance(shortFn(callee), fc)
	}
	ex.callOrd[key]++
	ord := ex.callOrd[key]
	env := &SpecEnv{ex: ex, vars: map[string]Val{}, cur: s, old: nil}
	env.pkg = ex.pkgByPath(fc.Pkg)
	// bind parameters
	pnames := ex.paramNames(fc, callee, sig)
	if len(pnames) != len(args) {
		ex.failf("contract %s: %d parameter names for %d arguments", key, len(pnames), len(args))
	}
	for i, n := range pnames {
		env.vars[n] = args[i]
	}
	pre := s.clone()
	env.cur = pre
	env.old = pre
	for _, l := range fc.Lets {
		env.vars[l.Label] = env.eval(l.Expr)
	}
	where := ""
	if site != nil {
		where = ex.pos(site.Pos())
	}
	caller := shortFn(fr.fn) + ex.sfx(fr)
	for i, r := range fc.Requires {
		t, err := env.evalBool(r.Expr)
		if err != nil {
			ex.failf("contract %s requires: %v", key, err)
		}
		ex.oblige(fmt.Sprintf("%s#call:%s:%s@%d", caller, shortKey(key), clauseLabel(r, i), ord), "requires-at-call", g, t, r.Src, where)
	}
	// havoc the modifies set
	ex.havocModifies(fc, env, s, g)
	// a closure handed to the callee may be run by it: whatever the closure writes (captured
	// variables, maps, heap) is written by this call as well
	ex.havocClosureEffects(args, g, s)
	// results
	res := ex.freshResult(sig.Results(), s, g)
	post := &SpecEnv{ex: ex, vars: map[string]Val{}, cur: s, old: pre, pkg: env.pkg}
	for k, v := range env.vars {
		post.vars[k] = v
	}
	ex.bindResults(post, sig, res)
	for _, e := range fc.Ensures {
		t, err := post.evalBool(e.Expr)
		if err != nil {
			ex.failf("contract %s ensures: %v", key, err)
		}
		u.fact(implies(g, t))
	}
	return g, res
}

func (u *Unit) addTrusted(k string) {
	for _, t := range u.Trusted {
		if t == k {
			return
		}
	}
	u.Trusted = append(u.Trusted, k)
}

func shortKey(k string) string {
	k = strings.ReplaceAll(k, "github.com/dave/dst/decorator/resolver/", "")
	k = strings.ReplaceAll(k, "github.com/dave/dst/", "")
	k = strings.ReplaceAll(k, "github.com/dave/", "")
	return k
}

func (ex *Exec) paramNames(fc *FuncContract, callee *ssa.Function, sig *types.Signature) []string {
	var out []string
	if callee != nil {
		for _, p := range callee.Params {
			out = append(out, p.Name())
		}
		if len(out) > 0 {
			return out
		}
	}
	if v, ok := fc.Attrs["params"]; ok {
		for _, n := range strings.Split(v, ",") {
			out = append(out, strings.TrimSpace(n))
		}
		return out
	}
	if sig.Recv() != nil {
		n := sig.Recv().Name()
		if n == "" {
			n = "recv"
		}
		out = append(out, n)
	}
	for i := 0; i < sig.Params().Len(); i++ {
		n := sig.Params().At(i).Name()
		if n == "" || n == "_" {
			n = fmt.Sprintf("p%d", i)
		}
		out = append(out, n)
	}
	return out
}

func (ex *Exec) bindResults(env *SpecEnv, sig *types.Signature, res Val) {
	rs := sig.Results()
	switch rs.Len() {
	case 0:
		return
	case 1:
		env.vars["result"] = res
		if n := rs.At(0).Name(); n != "" && n != "_" {
			env.vars[n] = res
		}
		return
	}
	for i := 0; i < rs.Len(); i++ {
		env.vars[fmt.Sprintf("result%d", i)] = res.Tuple[i]
		if n := rs.At(i).Name(); n != "" && n != "_" {
			env.vars[n] = res.Tuple[i]
		}
	}
	// conventional names for (value, error)
	if rs.Len() == 2 && typeKey(rs.At(1).Type()) == "error" {
		if _, ok := env.vars["err"]; !ok {
			env.vars["err"] = res.Tuple[1]
		}
		if _, ok := env.vars["result"]; !ok {
			env.vars["result"] = res.Tuple[0]
		}
	}
}

// havocModifies applies a modifies clause to state s (env evaluates in the pre-state).
func (ex *Exec) havocModifies(fc *FuncContract, env *SpecEnv, s *State, g string) {
	u := ex.u
	u.keySort("next", SInt)
	oldNext := u.get(s, "next")
	nn := u.havoc(s, "next")
	u.fact(implies(g, app(">=", nn, oldNext)))
	u.fact(implies(g, app(">=", nn, smtName("next"))))
	if !fc.HasMod {
		// no modifies clause: nothing is known about the callee's writes
		ex.havocAll(s)
		return
	}
	for _, it := range fc.Modifies {
		if strings.TrimSpace(it) == "newobjects" {
			ex.havocNewObjects(s, g, oldNext)
			continue
		}
		if ks, ok := ex.allButKeys(it, env); ok {
			for _, k := range ks {
				u.havoc(s, k)
			}
			continue
		}
		keys, precise := ex.modItem(it, env)
		for i, k := range keys {
			if k == "*" {
				ex.havocAll(s)
				continue
			}
			if _, ok := u.keySorts[k]; !ok {
				ex.failf("modifies: key %s has no sort", k)
			}
			if precise != nil && precise[i] != "" {
				srt := u.keySorts[k]
				elem := strings.TrimSuffix(strings.TrimPrefix(srt, "(Array Int "), ")")
				fv := u.freshConst(k+".at", elem)
				u.set(s, k, srt, store(u.get(s, k), precise[i], fv))
				continue
			}
			u.havoc(s, k)
		}
	}
}

// modItem resolves one modifies item to state keys; precise[i] != "" means only that index of the array changes.
func (ex *Exec) modItem(it string, env *SpecEnv) (keys []string, precise []string) {
	u := ex.u
	it = strings.TrimSpace(it)
	switch {
	case it == "alloc":
		return []string{"next"}, nil
	case it == "heap(*)" || it == "*":
		return []string{"*"}, nil
	case strings.HasPrefix(it, "heap(") && strings.HasSuffix(it, ")"):
		body := it[5 : len(it)-1]
		i := strings.LastIndex(body, ".")
		// T.f.g : find the type prefix
		parts := strings.Split(body, ".")
		_ = i
		for n := len(parts) - 1; n >= 1; n-- {
			tn := strings.Join(parts[:n], ".")
			t := ex.resolveType(tn, env.pkg)
			if t != nil && isStruct(t) {
				owner := ex.regOwner(t)
				path := parts[n:]
				return ex.leafKeys(t, owner, path), nil
			}
		}
		ex.failf("modifies %s: cannot resolve type", it)
	case strings.HasPrefix(it, "elems(") && strings.HasSuffix(it, ")"):
		t := ex.resolveType(it[6:len(it)-1], env.pkg)
		if t == nil {
			ex.failf("modifies %s: unknown type", it)
		}
		var ks []string
		for _, lf := range leaves(t) {
			k := "A$" + elemKey(t)
			if len(lf.Path) > 0 {
				k += "$" + strings.Join(lf.Path, ".")
			}
			u.keySort(k, arr2(sortOf(lf.Typ)))
			ks = append(ks, k)
		}
		return ks, nil
	case strings.HasPrefix(it, "cells(") && strings.HasSuffix(it, ")"):
		t := ex.resolveType(it[6:len(it)-1], env.pkg)
		if t == nil {
			ex.failf("modifies %s: unknown type", it)
		}
		k := "C$" + elemKey(t)
		u.keySort(k, arr1(sortOf(t)))
		return []string{k}, nil
	case strings.HasPrefix(it, "map(") && strings.HasSuffix(it, ")"):
		kv := strings.Split(it[4:len(it)-1], ",")
		if len(kv) != 2 {
			ex.failf("modifies %s", it)
		}
		kt, vt := ex.resolveType(kv[0], env.pkg), ex.resolveType(kv[1], env.pkg)
		if kt == nil || vt == nil {
			ex.failf("modifies %s: unknown type", it)
		}
		mk, dk := ex.mapKeys(types.NewMap(kt, vt))
		return []string{mk, dk}, nil
	case strings.HasPrefix(it, "ghost(") && strings.HasSuffix(it, ")"):
		name := it[6 : len(it)-1]
		gv, ok := ex.db.Ghosts[name]
		if !ok {
			ex.failf("modifies %s: unknown ghost", it)
		}
		t := ex.resolveType(gv.Type, ex.pkgByPath(gv.Pkg))
		u.keySort("G$"+name, sortOf(t))
		return []string{"G$" + name}, nil
	}
	// expression path: r.f or *p
	e, err := parseSpec(it)
	if err != nil {
		ex.failf("modifies %s: %v", it, err)
	}
	l := ex.specLoc(env, e)
	if l == nil {
		ex.failf("modifies %s: not a location", it)
	}
	switch l.Kind {
	case LField:
		ot := ex.ownerType(l.Owner)
		ft := ot
		for _, p := range l.Path {
			ft, _ = fieldType(ft, p)
		}
		ks := ex.leafKeys(ot, l.Owner, l.Path)
		pr := make([]string, len(ks))
		for i := range pr {
			pr[i] = l.Base
		}
		return ks, pr
	case LCell:
		k := "C$" + elemKey(l.Typ)
		u.keySort(k, arr1(sortOf(l.Typ)))
		return []string{k}, []string{l.Base}
	}
	ex.failf("modifies %s: unsupported location", it)
	return nil, nil
}

// leafKeys: heap keys of all leaves under owner.path (canonicalised).
func (ex *Exec) leafKeys(ownerT types.Type, owner string, path []string) []string {
	u := ex.u
	t := ownerT
	for _, p := range path {
		ft, _ := fieldType(t, p)
		if ft == nil {
			ex.failf("no field %s in %s", p, typeKey(t))
		}
		t = ft
	}
	var ks []string
	for _, lf := range leaves(t) {
		full := append(append([]string{}, path...), lf.Path...)
		l := &Loc{Kind: LField, Base: "x", Owner: owner, Path: full, Typ: lf.Typ}
		cl, _ := u.canonLoc(l, ownerT)
		k := heapKey(cl.Owner, cl.Path)
		u.keySort(k, arr1(sortOf(lf.Typ)))
		ks = append(ks, k)
	}
	sort.Strings(ks)
	return ks
}

// specLoc evaluates a spec expression denoting a location (x.f, *p).
func (ex *Exec) specLoc(env *SpecEnv, e *SExpr) *Loc {
	u := ex.u
	switch e.Op {
	case "un":
		if e.Name == "*" {
			return ex.locOf(env.eval(e.Args[0]))
		}
	case "sel":
		x := env.eval(e.Args[0])
		st := deref(x.Typ)
		if st == nil || !isStruct(st) {
			return nil
		}
		idx := findFieldPath(st, e.Name)
		if idx == nil {
			return nil
		}
		cur := x
		curT := st
		var l *Loc
		for n, ix := range idx {
			f := curT.Underlying().(*types.Struct).Field(ix)
			base := ex.locOf(cur)
			l = &Loc{Kind: LField, Base: base.Base, Owner: base.Owner, Path: append(append([]string{}, base.Path...), f.Name()), Typ: f.Type()}
			l, _ = u.canonLoc(l, ex.ownerType(base.Owner))
			if n == len(idx)-1 {
				return l
			}
			if p := deref(f.Type()); p != nil && isStruct(p) {
				cur = u.load(env.cur, l)
				cur.Typ = f.Type()
				curT = p
			} else {
				cur = Val{Typ: types.NewPointer(f.Type()), Loc: l}
				if len(l.Path) == 0 {
					cur = Val{T: l.Base, Typ: types.NewPointer(f.Type())}
				}
				curT = f.Type()
			}
		}
		return l
	}
	return nil
}

// ---- external models ----

func (ex *Exec) modelExternal(name string, callee *ssa.Function, args []Val, g string, s *State) (Val, bool) {
	u := ex.u
	switch name {
	case "strings.HasPrefix":
		u.markPattern(args[1].T)
		return boolVal(app("hasPrefix", args[0].T, args[1].T)), true
	case "strings.Contains":
		u.markPattern(args[1].T)
		return boolVal(app("strContains", args[0].T, args[1].T)), true
	case "(go/token.Pos).IsValid":
		return boolVal(not(eq(args[0].T, "0"))), true
	case "strconv.Unquote":
		// a function of its argument (what the literal denotes, and whether it is well formed)
		u.declareFun("spec$unquote", []string{SStr}, SStr)
		u.declareFun("ext$unquoteErr", []string{SStr}, SIface)
		sig := callee.Signature.Results()
		return Val{Typ: sig, Tuple: []Val{{T: app("spec$unquote", args[0].T), Typ: sig.At(0).Type()}, {T: app("ext$unquoteErr", args[0].T), Typ: sig.At(1).Type()}}}, true
	case "strings.Trim":
		u.declareFun("ext$trim", []string{SStr, SStr}, SStr)
		return Val{T: app("ext$trim", args[0].T, args[1].T), Typ: callee.Signature.Results().At(0).Type()}, true
	}
	_ = u
	return Val{}, false
}

// havocNewObjects: every heap array may change, but only at objects allocated after oldNext.
func (ex *Exec) havocNewObjects(s *State, g string, oldNext string) {
	u := ex.u
	if os.Getenv("GOVC_NEWOBJ") != "havoc" {
		// Default encoding: no havoc at all. The callee writes only cells of objects it allocates, i.e.
		// indices in [oldNext, next'). No fact emitted so far constrains any heap array at indices at or
		// beyond the allocation counter (facts are about loaded, i.e. allocated, cells or about the object
		// being allocated), so the arrays' current values at those indices are arbitrary and stand for
		// whatever the callee wrote. The explicit-havoc encoding below is kept for cross-checking.
		return
	}
	var ks []string
	for k := range u.keySorts {
		if strings.HasPrefix(k, "H$") || strings.HasPrefix(k, "A$") || strings.HasPrefix(k, "M$") || strings.HasPrefix(k, "MD$") || strings.HasPrefix(k, "C$") {
			ks = append(ks, k)
		}
	}
	sort.Strings(ks)
	for _, k := range ks {
		old := u.get(s, k)
		srt := u.keySorts[k]
		junk := u.freshConst(k+".new", srt)
		nw := u.defineArrayDual(k, srt,
			fmt.Sprintf("(lambda ((x!n Int)) (ite (< x!n %s) (select %s x!n) (select %s x!n)))", oldNext, old, junk),
			[]string{fmt.Sprintf("(forall ((x!n Int)) (! (= (select $SELF x!n) (ite (< x!n %s) (select %s x!n) (select %s x!n))) :pattern ((select $SELF x!n))))", oldNext, old, junk)})
		s.vars[k] = nw
	}
}

// appendRow: the backing-array row after append(s, t...). In place (fits): cells of the window
// [off+len, off+len+n) receive t's elements, the rest of s's row is kept. Otherwise a fresh row
// whose first len+n cells are s's then t's elements (cells beyond are unconstrained).
func (ex *Exec) appendRow(srt, fits, sT, tT, ln, n, oldRowS, oldRowT string) string {
	u := ex.u
	j := "j!a"
	inWin := and(app("<=", plus(sOff(sT), ln), j), app("<", j, plus(plus(sOff(sT), ln), n)))
	// old cells are read through idx(off, k) (= off + k), the form quantified clauses over slices use as their trigger
	inPlace := ite(inWin, sel(oldRowT, cellIdx(sOff(tT), minus(j, plus(sOff(sT), ln)))), sel(oldRowS, j))
	junk := u.freshConst("app.junk", "(Array Int "+srt+")")
	fresh := ite(and(app("<=", "0", j), app("<", j, plus(ln, n))),
		ite(app("<", j, ln), sel(oldRowS, cellIdx(sOff(sT), j)), sel(oldRowT, cellIdx(sOff(tT), minus(j, ln)))),
		sel(junk, j))
	body := ite(fits, inPlace, fresh)
	return u.defineArrayDual("app.row", "(Array Int "+srt+")",
		fmt.Sprintf("(lambda ((%s Int)) %s)", j, body),
		[]string{fmt.Sprintf("(forall ((%s Int)) (! (= (select $SELF %s) %s) :pattern ((select $SELF %s))))", j, j, body, j)})
}

// frameExcluded: heap keys named by explicit items of the verified function's modifies clause.
func (ex *Exec) frameExcluded() map[string]bool {
	if ex.frameExcl != nil {
		return ex.frameExcl
	}
	ex.frameExcl = map[string]bool{}
	fc := ex.topContract
	if fc == nil {
		return ex.frameExcl
	}
	fn := ex.stack0()
	if fn == nil {
		return ex.frameExcl
	}
	keys := map[string]bool{}
	ex.contractModKeys(fc, fn, fn.Signature, keys)
	for k := range keys {
		ex.frameExcl[k] = true
	}
	return ex.frameExcl
}

func (ex *Exec) stack0() *ssa.Function {
	if len(ex.stack) == 0 {
		return nil
	}
	return ex.stack[0]
}

// allButKeys: `allbut(item; item; ...)` = every registered heap key except those the items name.
func (ex *Exec) allButKeys(it string, env *SpecEnv) ([]string, bool) {
	it = strings.TrimSpace(it)
	if !strings.HasPrefix(it, "allbut(") || !strings.HasSuffix(it, ")") {
		return nil, false
	}
	keep := map[string]bool{}
	for _, sub := range strings.Split(it[7:len(it)-1], ";") {
		sub = strings.TrimSpace(sub)
		if sub == "" {
			continue
		}
		ks, _ := ex.modItem(sub, env)
		for _, k := range ks {
			keep[k] = true
		}
	}
	var out []string
	for k := range ex.u.keySorts {
		if keep[k] || isLocalKey(k) {
			continue
		}
		if strings.HasPrefix(k, "H$") || strings.HasPrefix(k, "A$") || strings.HasPrefix(k, "M$") || strings.HasPrefix(k, "MD$") || strings.HasPrefix(k, "C$") || strings.HasPrefix(k, "GV$") || strings.HasPrefix(k, "RF$") {
			out = append(out, k)
		}
	}
	sort.Strings(out)
	return out, true
}

// verbIndex: position (among the operands) of the first %<verb> in a format string, or -1.
func verbIndex(format string, verb byte) int {
	k := 0
	for i := 0; i < len(format); i++ {
		if format[i] != '%' {
			continue
		}
		i++
		for i < len(format) && strings.IndexByte("+-# 0123456789.[]*", format[i]) >= 0 {
			i++
		}
		if i >= len(format) {
			break
		}
		if format[i] == '%' {
			continue
		}
		if format[i] == verb {
			return k
		}
		k++
	}
	return -1
}

// ---- reliance audit: which callee postconditions were assumed at call sites ----

var (
	relianceMu sync.Mutex
	reliedOn   = map[string]map[string]bool{} // function (short name) -> ensures labels assumed somewhere
)

func noteReliance(fn string, fc *FuncContract) {
	relianceMu.Lock()
	defer relianceMu.Unlock()
	m := reliedOn[fn]
	if m == nil {
		m = map[string]bool{}
		reliedOn[fn] = m
	}
	for i, e := range fc.Ensures {
		m["ensures:"+clauseLabel(e, i)] = true
	}
	if fc.Modifies != nil {
		m["frame"] = true
	}
}

// ---- closures passed as arguments ----

// closureTerms: the closure identities an argument value may carry (the value itself, or the
// payload of an interface built from a named function type such as dst.inspector).
func closureTerms(t string) []string {
	out := []string{t}
	if strings.HasPrefix(t, "(mkI ") && strings.HasSuffix(t, ")") {
		body := t[5 : len(t)-1]
		// second argument: after the first balanced term
		depth, i := 0, 0
		for i = 0; i < len(body); i++ {
			switch body[i] {
			case '(':
				depth++
			case ')':
				depth--
			}
			if depth == 0 && body[i] == ' ' {
				break
			}
		}
		if i < len(body) {
			out = append(out, strings.TrimSpace(body[i:]))
		}
	}
	return out
}

func (ex *Exec) havocClosureEffects(args []Val, g string, s *State) {
	u := ex.u
	for _, a := range args {
		if a.T == "" {
			continue
		}
		for _, t := range closureTerms(a.T) {
			cv := closures[t]
			if cv == nil {
				continue
			}
			keys := map[string]bool{}
			ex.funcModKeys(cv.fn, keys, map[*ssa.Function]bool{})
			var ks []string
			for k := range keys {
				ks = append(ks, k)
			}
			sort.Strings(ks)
			var wfLater []Val
			defer func() {
				// against the allocation counter after the call: the closure may have stored an object it allocated
				for _, hv := range wfLater {
					if f := ex.wf(hv, s); f != "true" {
						u.fact(implies(g, f))
					}
				}
			}()
			for _, k := range ks {
				switch {
				case k == "*":
					ex.havocAll(s)
				case strings.HasPrefix(k, "*freevar:"):
					name := strings.TrimPrefix(k, "*freevar:")
					for i, fv := range cv.fn.FreeVars {
						if fv.Name() != name || i >= len(cv.bindings) {
							continue
						}
						b := cv.bindings[i]
						if b.Loc != nil && b.Loc.Kind == LLocal {
							if _, ok := u.keySorts[b.Loc.Key]; ok {
								hv := u.havoc(s, b.Loc.Key)
								if lt, ok := ex.localTyp[b.Loc.Key]; ok {
									wfLater = append(wfLater, Val{T: hv, Typ: lt})
								}
							}
							delete(ex.ptrLocals(s), b.Loc.Key)
						} else {
							ex.havocAll(s)
						}
					}
				case k == "next":
					u.keySort("next", SInt)
					before := u.get(s, "next")
					n := u.havoc(s, "next")
					u.fact(implies(g, app(">=", n, before)))
				case strings.HasPrefix(k, "*"):
					ex.havocAll(s)
				default:
					if _, ok := u.keySorts[k]; ok {
						u.havoc(s, k)
					}
				}
			}
		}
	}
}

// modelSortSlice: assumed contract of sort.Slice / sort.SliceStable on a slice of non-struct elements: the cells of the
// slice are permuted (every new cell holds an old cell, a different one for each index, and every old cell is still
// there), nothing else changes, and the comparison closure runs. Which permutation (that the result is sorted) is not
// stated.
func (ex *Exec) modelSortSlice(fr *frame, c *ssa.CallCommon, args []Val, g string, s *State) bool {
	u := ex.u
	if len(c.Args) != 2 {
		return false
	}
	mi, ok := c.Args[0].(*ssa.MakeInterface)
	if !ok {
		return false
	}
	st, ok := mi.X.Type().Underlying().(*types.Slice)
	if !ok || isStruct(st.Elem()) {
		return false
	}
	x := ex.value(fr, mi.X, s)
	if x.T == "" {
		return false
	}
	srt := sortOf(st.Elem())
	key := "A$" + elemKey(st.Elem())
	u.keySort(key, arr2(srt))
	A := u.get(s, key)
	xs := u.define("sort.s", SSlice, x.T)
	oldRow := u.define("sort.old", arr1(srt), sel(A, sArr(xs)))
	newRow := u.freshConst("sort.row", arr1(srt))
	perm := u.freshConst("sort.perm", "(Array Int Int)")
	inv := u.freshConst("sort.inv", "(Array Int Int)")
	off, ln := sOff(xs), sLen(xs)
	in := func(j string) string { return and(app("<=", "0", j), app("<", j, ln)) }
	j, k := "j!s", "k!s"
	u.fact(implies(g, fmt.Sprintf("(forall ((%s Int)) (! (=> %s (and (= (select %s %s) (select %s %s)) %s)) :pattern ((select %s %s))))",
		j, in(j), newRow, cellIdx(off, j), oldRow, cellIdx(off, sel(perm, j)), in(sel(perm, j)), newRow, cellIdx(off, j))))
	u.fact(implies(g, fmt.Sprintf("(forall ((%s Int) (%s Int)) (! (=> (and %s %s (not (= %s %s))) (not (= (select %s %s) (select %s %s)))) :pattern ((select %s %s) (select %s %s))))",
		j, k, in(j), in(k), j, k, perm, j, perm, k, perm, j, perm, k)))
	u.fact(implies(g, fmt.Sprintf("(forall ((%s Int)) (! (=> %s (and %s (= (select %s (select %s %s)) %s))) :pattern ((select %s %s))))",
		k, in(k), in(sel(inv, k)), perm, inv, k, k, inv, k)))
	// cells outside the window keep their value
	u.fact(implies(g, fmt.Sprintf("(forall ((%s Int)) (! (=> (or (< %s %s) (>= %s (+ %s %s))) (= (select %s %s) (select %s %s))) :pattern ((select %s %s))))",
		j, j, off, j, off, ln, newRow, j, oldRow, j, newRow, j)))
	u.set(s, key, arr2(srt), ite(app("<=", ln, "1"), A, store(A, sArr(xs), newRow)))
	u.assume("sort.Slice / sort.SliceStable permute the cells of the slice they are given and change nothing else (which permutation is not stated)")
	ex.havocClosureEffects(args[1:], g, s)
	return true
}
