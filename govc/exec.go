package main

// Symbolic execution of go/ssa functions into guarded SMT facts and obligations.
//
// Every basic block gets an entry guard; states are merged at joins with fresh constants
// constrained per incoming edge; loops are cut at their header (assert invariant on entry,
// havoc the loop's write set, assume invariant, assert invariant on each back edge).
// An obligation sees exactly the facts emitted before it.

import (
	"fmt"
	"go/token"
	"go/types"
	"os"
	"runtime"
	"sort"
	"strings"
	"sync"

	"golang.org/x/tools/go/packages"
	"golang.org/x/tools/go/ssa"
)

type Obligation struct {
	Name     string
	Kind     string // ensures, requires-at-call, loop-entry, loop-preserve, frame, lemma, schema, canary, vacuity
	Guard    string
	Goal     string
	NDecl    int
	LoopFrom int // >= 0: index of the first fact of the enclosing loop's havoced state (facts between SetupEnd and LoopFrom can be dropped first)
	SetupEnd int
	Src      string
	Where    string
	Expect   Verdict // Unsat for ordinary obligations; Sat/Unknown-accepted for canaries ("must not be unsat")
	Extra    map[string]string
}

type Unit struct {
	Name                  string
	U                     *Universe
	Obls                  []*Obligation
	Warnings              []string
	Funcs                 []string // functions whose bodies were translated (verified or inlined)
	Trusted               []string // contracts assumed at call sites
	symCache              map[string][]string
	mu                    sync.Mutex
	info                  []declInfo
	defAt                 map[string]int
	freshScalar           map[string]bool
	stage1Hit, stage1Miss int32
}

type Exec struct {
	recovering bool                  // executing deferred calls after a panic: recover() returns a non-nil value
	localTyp   map[string]types.Type // scalar frame cells: key -> Go type
	u          *Universe
	prog       *ssa.Program
	pkgs       map[string]*packages.Package
	spkgs      map[string]*ssa.Package
	db         *ContractDB
	unit       *Unit
	stack      []*ssa.Function
	owners     map[string]types.Type
	callOrd    map[string]int
	fset       *token.FileSet
	// hooks
	unitSuffix  string
	typeRename  [2]string
	trace       []Event
	traceOn     bool
	curLoopFrom int
	setupEnd    int
	topContract *FuncContract
	frameExcl   map[string]bool
	entered     map[int]bool   // loop headers (block index) entered by the top frame in this pass
	enteredPrev map[int]bool   // ... in earlier passes: loop ordinals count only these
	knownType   map[string]int // term of an interface value -> its dynamic type id (per-case units)
	atBackEdge  func(ex *Exec, fr *frame, lr *loopRec, edge int, g string, st *State)
	onCall      func(fr *frame, c *ssa.CallCommon, callee *ssa.Function, args []Val, st *State, guard string) (handled bool, res Val)
	maxInline   int
}

// Event: something the executor did that per-case obligations are later stated about.
type Event struct {
	Kind   string // "call", "store", "alloc"
	Guard  string
	Instr  ssa.Instruction
	Callee string // contract key or function name (calls)
	Args   []Val
	St     *State // state at the event (before the effect for calls, after for stores)
	Pre    *State // mapupdate: the state before the update
	Loc    *Loc   // store target
	Val    Val    // stored value / allocated reference
	Typ    types.Type
	Depth  int  // inlining depth (0 = the verified function itself)
	Res    *Val // calls with a contract: the result value
}

type retInfo struct {
	guard string
	st    *State
	res   []Val
}

type loopRec struct {
	header    *ssa.BasicBlock
	ord       int
	blocks    map[*ssa.BasicBlock]bool
	entrySt   *State
	invs      []Clause
	kKey      string
	vars      map[string]Val // extra spec variables ($k ...)
	modLocal  []string
	startDecl int
	nBack     int
	exits     int
}

type frame struct {
	fn       *ssa.Function
	regs     map[ssa.Value]Val
	entry    *State
	contract *FuncContract
	top      bool
	params   map[string]Val
	rets     []retInfo
	defers   []*ssa.Defer
	// the last point at which a defer was registered (functions with a recover block): the state a
	// panic raised later is modelled from
	deferState *State
	deferGuard string
	deferCount int
	recovered  *retInfo // the exit taken after a deferred function recovered from a panic
	loops      map[*ssa.BasicBlock]*loopRec
	allocKey   map[*ssa.Alloc]string
	id         int
	specVars   map[string]Val // lets
	rangeIt    map[ssa.Value]*rangeState
	visited    map[*ssa.BasicBlock]bool
}

type rangeState struct {
	x      Val
	key    string // ghost cell: visited set (maps) or last index (strings)
	isMap  bool
	keyT   types.Type
	valT   types.Type
	mapKey string
	dom0   string // key set of the map when the range statement started
}

type execErr struct{ msg string }

func (ex *Exec) failf(format string, args ...interface{}) {
	panic(execErr{fmt.Sprintf(format, args...)})
}

func (ex *Exec) warn(format string, args ...interface{}) {
	w := fmt.Sprintf(format, args...)
	for _, x := range ex.unit.Warnings {
		if x == w {
			return
		}
	}
	ex.unit.Warnings = append(ex.unit.Warnings, w)
}

func (ex *Exec) pos(p token.Pos) string {
	if !p.IsValid() {
		return ""
	}
	ps := ex.fset.Position(p)
	return fmt.Sprintf("%s:%d", strings.TrimPrefix(ps.Filename, "/repo/"), ps.Line)
}

func (ex *Exec) oblige(name, kind, guard, goal, src, where string) *Obligation {
	o := &Obligation{Name: name, Kind: kind, Guard: guard, Goal: goal, NDecl: len(ex.u.decls), Src: src, Where: where, Expect: Unsat, LoopFrom: ex.curLoopFrom, SetupEnd: ex.setupEnd}
	ex.unit.Obls = append(ex.unit.Obls, o)
	// assert-then-assume, for obligations inside the body; exit obligations are independent of each other
	switch kind {
	case "ensures", "schema", "frame":
	default:
		ex.u.fact(implies(guard, goal))
	}
	return o
}

func (ex *Exec) pkgByPath(path string) *types.Package {
	if p, ok := ex.pkgs[path]; ok {
		return p.Types
	}
	return nil
}

func (ex *Exec) pkgByName(name string, from *types.Package) *types.Package {
	if from != nil {
		for _, imp := range from.Imports() {
			if imp.Name() == name {
				return imp
			}
		}
	}
	var cands []string
	for path, p := range ex.pkgs {
		if p.Types != nil && p.Types.Name() == name {
			cands = append(cands, path)
		}
	}
	sort.Strings(cands)
	if len(cands) > 0 {
		return ex.pkgs[cands[0]].Types
	}
	return nil
}

func (ex *Exec) resolveType(name string, pkg *types.Package) types.Type {
	name = strings.TrimSpace(name)
	if ex.typeRename[0] != "" {
		name = strings.ReplaceAll(name, ex.typeRename[0], ex.typeRename[1])
	}
	if name == "" {
		return nil
	}
	if strings.HasPrefix(name, "*") {
		t := ex.resolveType(name[1:], pkg)
		if t == nil {
			return nil
		}
		return types.NewPointer(t)
	}
	if strings.HasPrefix(name, "[]") {
		t := ex.resolveType(name[2:], pkg)
		if t == nil {
			return nil
		}
		return types.NewSlice(t)
	}
	if name == "any" {
		return types.NewInterfaceType(nil, nil)
	}
	if strings.HasPrefix(name, "map[") {
		depth := 0
		for i := 3; i < len(name); i++ {
			switch name[i] {
			case '[':
				depth++
			case ']':
				depth--
				if depth == 0 {
					kt, vt := ex.resolveType(name[4:i], pkg), ex.resolveType(name[i+1:], pkg)
					if kt == nil || vt == nil {
						return nil
					}
					return types.NewMap(kt, vt)
				}
			}
		}
		return nil
	}
	if i := strings.Index(name, "."); i >= 0 {
		p := ex.pkgByName(name[:i], pkg)
		if p == nil {
			return nil
		}
		if o := p.Scope().Lookup(name[i+1:]); o != nil {
			if tn, ok := o.(*types.TypeName); ok {
				return tn.Type()
			}
		}
		return nil
	}
	if o := types.Universe.Lookup(name); o != nil {
		if tn, ok := o.(*types.TypeName); ok {
			return tn.Type()
		}
	}
	if pkg != nil {
		if o := pkg.Scope().Lookup(name); o != nil {
			if tn, ok := o.(*types.TypeName); ok {
				return tn.Type()
			}
		}
	}
	return nil
}

func (ex *Exec) ownerType(key string) types.Type {
	if t, ok := ex.owners[key]; ok {
		return t
	}
	panic("unknown owner type " + key)
}

func (ex *Exec) regOwner(t types.Type) string {
	k := structKey(t)
	if _, ok := ex.owners[k]; !ok {
		ex.owners[k] = t
	}
	return k
}

// locOf: the location a pointer value points to.
func (ex *Exec) locOf(v Val) *Loc {
	if v.Loc != nil {
		return v.Loc
	}
	if v.Typ == nil {
		return nil
	}
	e := deref(v.Typ)
	if e == nil {
		return nil
	}
	if isStruct(e) {
		return &Loc{Kind: LField, Base: v.T, Owner: ex.regOwner(e), Path: nil, Typ: e}
	}
	if a, ok := e.Underlying().(*types.Array); ok {
		_ = a
		return &Loc{Kind: LCell, Base: v.T, Typ: e}
	}
	return &Loc{Kind: LCell, Base: v.T, Typ: e}
}

// ---- well-formedness facts for values entering from the heap or the caller ----

func (ex *Exec) wf(v Val, st *State) string {
	u := ex.u
	if v.Typ == nil {
		return "true"
	}
	if len(v.Fields) > 0 {
		var cs []string
		for _, f := range v.Fields {
			cs = append(cs, ex.wf(f, st))
		}
		return and(cs...)
	}
	if v.T == "" {
		return "true"
	}
	u.keySort("next", SInt)
	next := u.get(st, "next")
	switch v.Typ.Underlying().(type) {
	case *types.Slice:
		t := v.T
		return and(app("<=", "0", sArr(t)), app("<", sArr(t), next), app("<=", "0", sOff(t)), app("<=", "0", sLen(t)), app("<=", sLen(t), sCap(t)),
			implies(eq(sArr(t), "0"), and(eq(sCap(t), "0"), eq(sOff(t), "0"))))
	case *types.Interface:
		t := v.T
		lower := "true"
		if it := v.Typ.Underlying().(*types.Interface); it.NumMethods() > 0 {
			// an interface all of whose implementers are pointer types holds a reference (>= 0)
			allPtr := true
			impls := u.implementers(it, typeKey(v.Typ))
			for _, c := range impls {
				if _, ok := c.(*types.Pointer); !ok {
					allPtr = false
				}
			}
			if allPtr && len(impls) > 0 {
				lower = app("<=", "0", iRef(t))
			}
		}
		return and(app("<=", "0", iTyp(t)), implies(eq(iTyp(t), "0"), eq(iRef(t), "0")), app("<", iRef(t), next), lower)
	case *types.Pointer, *types.Map, *types.Signature:
		return and(app("<=", "0", v.T), app("<", v.T, next))
	}
	return "true"
}

// ---- function execution ----

var frameCounter int

func (ex *Exec) newFrame(fn *ssa.Function) *frame {
	frameCounter++
	return &frame{fn: fn, regs: map[ssa.Value]Val{}, loops: map[*ssa.BasicBlock]*loopRec{}, allocKey: map[*ssa.Alloc]string{},
		id: frameCounter, params: map[string]Val{}, specVars: map[string]Val{}, rangeIt: map[ssa.Value]*rangeState{}, visited: map[*ssa.BasicBlock]bool{}}
}

type edgeIn struct {
	from  *ssa.BasicBlock
	guard string
	st    *State
}

// execBody runs fn's blocks from (st, guard) with parameters bound in fr; returns the merged exit.
func (ex *Exec) execBody(fr *frame, st *State, guard string) (string, *State, []Val) {
	fn := fr.fn
	if len(fn.Blocks) == 0 {
		ex.failf("function %s has no body", fn.String())
	}
	ex.stack = append(ex.stack, fn)
	defer func() { ex.stack = ex.stack[:len(ex.stack)-1] }()
	ex.unit.addFunc(fn.String())

	order, back := blockOrder(fn)
	loops := findLoops(fn, back)
	counted := loops
	if fr.top && len(ex.enteredPrev) > 0 {
		counted = map[*ssa.BasicBlock]map[*ssa.BasicBlock]bool{}
		for h, body := range loops {
			if ex.enteredPrev[h.Index] {
				counted[h] = body
			}
		}
	}
	ordOf := loopOrdinals(fn, counted)
	incoming := map[*ssa.BasicBlock][]edgeIn{}
	incoming[fn.Blocks[0]] = []edgeIn{{nil, guard, st}}

	for _, b := range order {
		ins := incoming[b]
		if len(ins) == 0 {
			continue
		}
		delete(incoming, b)
		fr.visited[b] = true
		if fr.top {
			ex.curLoopFrom = -1
			best := -1
			for h, body := range loops {
				if body[b] && h != b {
					if lr := fr.loops[h]; lr != nil && (best < 0 || len(body) < best) {
						best = len(body)
						ex.curLoopFrom = lr.startDecl
					}
				}
			}
		}
		g, s, phiSel := ex.merge(ins, b)
		if fr.top && len(ins) > 1 && fr.contract != nil && len(fr.contract.Tracks) > 0 {
			ex.trackAcrossMerge(fr, b, ins, g, s)
		}
		if lb, isLoop := loops[b]; isLoop {
			if fr.top && ex.entered != nil {
				ex.entered[b.Index] = true
			}
			s = ex.enterLoop(fr, b, lb, ordOf[b], g, s)
			if fr.top {
				ex.curLoopFrom = fr.loops[b].startDecl
			}
		}
		ex.execBlock(fr, b, g, s, ins, phiSel, func(to *ssa.BasicBlock, eg string, es *State) {
			if back[[2]*ssa.BasicBlock{b, to}] {
				ex.backEdge(fr, to, eg, es)
				return
			}
			if fr.top && fr.contract != nil && len(fr.contract.LoopExits) > 0 {
				for h, body := range loops {
					if body[b] && !body[to] {
						ex.loopExit(fr, h, ordOf[h], eg, es)
					}
				}
			}
			incoming[to] = append(incoming[to], edgeIn{b, eg, es})
		})
	}
	if fr.top && fn.Recover != nil && fr.deferState != nil {
		ex.recoveredPath(fr)
	}
	// merge returns
	if len(fr.rets) == 0 {
		return "false", st, nil
	}
	var rins []edgeIn
	for _, r := range fr.rets {
		rins = append(rins, edgeIn{nil, r.guard, r.st})
	}
	g, s, _ := ex.merge(rins, nil)
	if fr.top && len(rins) > 1 && fr.contract != nil && len(fr.contract.Tracks) > 0 {
		ex.trackAcrossMerge(fr, nil, rins, g, s)
	}
	nres := len(fr.rets[0].res)
	res := make([]Val, nres)
	for i := 0; i < nres; i++ {
		var vs []Val
		for _, r := range fr.rets {
			vs = append(vs, r.res[i])
		}
		res[i] = ex.mergeVals(vs, rins, fmt.Sprintf("ret%d", i))
	}
	return g, s, res
}

func (u *Unit) addFunc(name string) {
	for _, f := range u.Funcs {
		if f == name {
			return
		}
	}
	u.Funcs = append(u.Funcs, name)
}

// blockOrder: reverse postorder ignoring back edges (edges to a dominator).
func blockOrder(fn *ssa.Function) ([]*ssa.BasicBlock, map[[2]*ssa.BasicBlock]bool) {
	back := map[[2]*ssa.BasicBlock]bool{}
	for _, b := range fn.Blocks {
		for _, s := range b.Succs {
			if s.Dominates(b) {
				back[[2]*ssa.BasicBlock{b, s}] = true
			}
		}
	}
	seen := map[*ssa.BasicBlock]bool{}
	var post []*ssa.BasicBlock
	var dfs func(b *ssa.BasicBlock)
	dfs = func(b *ssa.BasicBlock) {
		seen[b] = true
		// successors in reverse: the resulting reverse postorder follows source order
		// (then before else, loop body before loop exit)
		for i := len(b.Succs) - 1; i >= 0; i-- {
			s := b.Succs[i]
			if back[[2]*ssa.BasicBlock{b, s}] || seen[s] {
				continue
			}
			dfs(s)
		}
		post = append(post, b)
	}
	dfs(fn.Blocks[0])
	if fn.Recover != nil && !seen[fn.Recover] {
		// recover block: not executed on normal paths
	}
	for i, j := 0, len(post)-1; i < j; i, j = i+1, j-1 {
		post[i], post[j] = post[j], post[i]
	}
	return post, back
}

// findLoops: header -> natural loop body (union over its back edges).
func findLoops(fn *ssa.Function, back map[[2]*ssa.BasicBlock]bool) map[*ssa.BasicBlock]map[*ssa.BasicBlock]bool {
	loops := map[*ssa.BasicBlock]map[*ssa.BasicBlock]bool{}
	for e := range back {
		latch, h := e[0], e[1]
		body := loops[h]
		if body == nil {
			body = map[*ssa.BasicBlock]bool{h: true}
			loops[h] = body
		}
		var stack []*ssa.BasicBlock
		if !body[latch] {
			body[latch] = true
			stack = append(stack, latch)
		}
		for len(stack) > 0 {
			x := stack[len(stack)-1]
			stack = stack[:len(stack)-1]
			for _, p := range x.Preds {
				if !body[p] {
					body[p] = true
					stack = append(stack, p)
				}
			}
		}
	}
	return loops
}

func minPos(body map[*ssa.BasicBlock]bool) token.Pos {
	var m token.Pos
	for b := range body {
		for _, in := range b.Instrs {
			if _, ok := in.(*ssa.DebugRef); ok {
				continue
			}
			p := in.Pos()
			if p.IsValid() && (m == 0 || p < m) {
				m = p
			}
		}
	}
	return m
}

// loopOrdinals numbers loops 1.. in source order (outer before inner).
func loopOrdinals(fn *ssa.Function, loops map[*ssa.BasicBlock]map[*ssa.BasicBlock]bool) map[*ssa.BasicBlock]int {
	type hl struct {
		h   *ssa.BasicBlock
		pos token.Pos
		n   int
	}
	var hs []hl
	for h, body := range loops {
		hs = append(hs, hl{h, minPos(body), len(body)})
	}
	sort.Slice(hs, func(i, j int) bool {
		if hs[i].pos != hs[j].pos {
			return hs[i].pos < hs[j].pos
		}
		if hs[i].n != hs[j].n {
			return hs[i].n > hs[j].n
		}
		return hs[i].h.Index < hs[j].h.Index
	})
	out := map[*ssa.BasicBlock]int{}
	for i, h := range hs {
		out[h.h] = i + 1
	}
	return out
}

// merge joins incoming edges: guard = OR, state keys with differing terms get fresh constants.
func (ex *Exec) merge(ins []edgeIn, b *ssa.BasicBlock) (string, *State, []string) {
	u := ex.u
	if len(ins) == 1 {
		return ins[0].guard, ins[0].st.clone(), []string{ins[0].guard}
	}
	var gs []string
	for _, in := range ins {
		gs = append(gs, in.guard)
	}
	hint := "g"
	if b != nil {
		hint = fmt.Sprintf("g%d", b.Index)
	}
	g := u.define(hint, SBool, or(gs...))
	keys := map[string]bool{}
	for _, in := range ins {
		for k := range in.st.vars {
			keys[k] = true
		}
	}
	var ks []string
	for k := range keys {
		ks = append(ks, k)
	}
	sort.Strings(ks)
	out := newState()
	for _, k := range ks {
		var terms []string
		missing := false
		for _, in := range ins {
			t, ok := in.st.vars[k]
			if !ok {
				if isLocalKey(k) {
					missing = true
					break
				}
				t = u.get(in.st, k)
			}
			terms = append(terms, t)
		}
		if missing {
			continue
		}
		same := true
		for _, t := range terms[1:] {
			if t != terms[0] {
				same = false
			}
		}
		if same {
			if pv, allPtr := mergePtrLocal(ins, k); allPtr {
				if out.ptrs == nil {
					out.ptrs = map[string]Val{}
				}
				out.ptrs[k] = pv
			}
			out.vars[k] = terms[0]
			continue
		}
		if pv, allPtr := mergePtrLocal(ins, k); allPtr {
			if out.ptrs == nil {
				out.ptrs = map[string]Val{}
			}
			out.ptrs[k] = pv
			out.vars[k] = "0"
			continue
		}
		srt := u.keySorts[k]
		n := u.freshConst(k, srt)
		for i, in := range ins {
			u.fact(implies(in.guard, eq(n, terms[i])))
		}
		if k == "next" {
			// the allocation counter never decreases: link the merged value to the entry value directly
			u.fact(app(">=", n, smtName("next")))
		}
		out.vars[k] = n
	}
	return g, out, gs
}

func isLocalKey(k string) bool { return strings.HasPrefix(k, "L!") }

func (ex *Exec) mergeVals(vs []Val, ins []edgeIn, hint string) Val {
	u := ex.u
	if len(vs) == 1 {
		return vs[0]
	}
	v0 := vs[0]
	if len(v0.Fields) > 0 || len(v0.Tuple) > 0 {
		out := Val{Typ: v0.Typ}
		n := len(v0.Fields) + len(v0.Tuple)
		for i := 0; i < n; i++ {
			var sub []Val
			for _, v := range vs {
				if len(v0.Fields) > 0 {
					sub = append(sub, v.Fields[i])
				} else {
					sub = append(sub, v.Tuple[i])
				}
			}
			m := ex.mergeVals(sub, ins, hint)
			if len(v0.Fields) > 0 {
				out.Fields = append(out.Fields, m)
			} else {
				out.Tuple = append(out.Tuple, m)
			}
		}
		return out
	}
	same := true
	for _, v := range vs[1:] {
		if v.T != v0.T || (v.Loc == nil) != (v0.Loc == nil) || !samePtrAlts(v, v0) {
			same = false
		}
	}
	if same && v0.Loc == nil {
		return v0
	}
	for _, v := range vs {
		if v.T == "" || len(v.PtrAlts) > 0 {
			var guards []string
			for _, in := range ins {
				guards = append(guards, in.guard)
			}
			return choicePtr(guards, vs)
		}
	}
	n := u.freshConst(hint, sortOf(v0.Typ))
	for i, in := range ins {
		u.fact(implies(in.guard, eq(n, vs[i].T)))
	}
	return Val{T: n, Typ: v0.Typ}
}

// ---- loops ----

func (ex *Exec) loopModKeys(fr *frame, body map[*ssa.BasicBlock]bool) (keys map[string]bool) {
	keys = map[string]bool{}
	var blocks []*ssa.BasicBlock
	for b := range body {
		blocks = append(blocks, b)
	}
	sort.Slice(blocks, func(i, j int) bool { return blocks[i].Index < blocks[j].Index })
	for _, b := range blocks {
		for _, in := range b.Instrs {
			ex.instrModKeys(fr, in, keys, map[*ssa.Function]bool{})
		}
	}
	return keys
}

func (ex *Exec) enterLoop(fr *frame, h *ssa.BasicBlock, body map[*ssa.BasicBlock]bool, ord int, g string, s *State) *State {
	u := ex.u
	lr := &loopRec{header: h, ord: ord, blocks: body, entrySt: s.clone(), vars: map[string]Val{}}
	fr.loops[h] = lr
	if fr.contract != nil {
		lr.invs = append(append([]Clause{}, fr.contract.Loops[0]...), fr.contract.Loops[ord]...)
	}
	lr.invs = append(lr.invs, ex.autoInvariants(fr, lr)...)
	if fr.top && fr.contract != nil && contains(fr.contract.Modifies, "newobjects") {
		// the frame of the function is a two-state invariant: it holds at every loop head
		e, _ := parseSpec("frameNew()")
		lr.invs = append(lr.invs, Clause{Label: "frame_new", Expr: e, Src: "frameNew()  (from `modifies newobjects`)", File: fr.contract.File, Line: fr.contract.Line})
	}
	// ghost iteration counter
	lr.kKey = fmt.Sprintf("L!f%d.k%d", fr.id, h.Index)
	u.keySort(lr.kKey, SInt)
	s.vars[lr.kKey] = "0"
	lr.entrySt.vars[lr.kKey] = "0"
	fname := fr.fn.String()
	// invariant on entry
	for i, inv := range lr.invs {
		env := ex.specEnv(fr, s, lr)
		t, err := env.evalBool(inv.Expr)
		if err != nil {
			ex.failf("%s loop %d invariant: %v", fname, ord, err)
		}
		ex.oblige(fmt.Sprintf("%s%s#loop%d-entry:%s", shortFn(fr.fn), ex.sfx(fr), ord, clauseLabel(inv, i)), "loop-entry", g, t, inv.Src, ex.clauseWhere(inv))
	}
	// havoc
	lr.startDecl = len(u.decls)
	keys := ex.loopModKeys(fr, body)
	s2 := s.clone()
	var ks []string
	for k := range keys {
		ks = append(ks, k)
	}
	sort.Strings(ks)
	precise := ex.loopPrecise(fr, lr, s)
	var wfLater []Val
	for _, k := range ks {
		if k == "*new" {
			u.keySort("next", SInt)
			ex.havocNewObjects(s2, g, u.get(s, "next"))
			continue
		}
		if strings.HasPrefix(k, "*") {
			if k != "*" {
				ex.warn("loop write set contains %s", k)
			}
			ex.havocAll(s2)
			continue
		}
		if isLocalKey(k) {
			if _, live := s2.vars[k]; !live {
				continue
			}
		}
		if _, ok := u.keySorts[k]; !ok {
			ex.failf("loop write set: key %s has no sort", k)
		}
		if bs, ok := precise[k]; ok {
			// every write in the loop goes to a loop-invariant object: only those cells are havoced
			srt := u.keySorts[k]
			elem := strings.TrimSuffix(strings.TrimPrefix(srt, "(Array Int "), ")")
			cur := u.get(s2, k)
			for _, b := range bs {
				cur = store(cur, b, u.freshConst(k+".at", elem))
			}
			u.set(s2, k, srt, cur)
			continue
		}
		hv := u.havoc(s2, k)
		if lt, ok := ex.localTyp[k]; ok && isLocalKey(k) {
			// a local of slice / interface / pointer / map type holds a well-formed value of that type
			// in every iteration (Go's type system; the havoc forgets which one)
			wfLater = append(wfLater, Val{T: hv, Typ: lt})
		}
	}
	kk := u.havoc(s2, lr.kKey)
	u.fact(implies(g, app(">=", kk, "0")))
	if _, ok := u.keySorts["next"]; ok && keys["next"] {
		u.fact(implies(g, app(">=", u.get(s2, "next"), u.get(s, "next"))))
		u.fact(implies(g, app(">=", u.get(s2, "next"), smtName("next"))))
	}
	lr.modLocal = ks
	// well-formedness of the havoced locals against the allocation counter as it is now (after its own havoc):
	// a local may hold an object allocated in an earlier iteration
	for _, hv := range wfLater {
		if f := ex.wf(hv, s2); f != "true" {
			u.fact(implies(g, f))
		}
	}
	for _, inv := range lr.invs {
		env := ex.specEnv(fr, s2, lr)
		t, err := env.evalBool(inv.Expr)
		if err != nil {
			ex.failf("%s loop %d invariant: %v", fname, ord, err)
		}
		u.fact(implies(g, t))
	}
	return s2
}

func (ex *Exec) backEdge(fr *frame, h *ssa.BasicBlock, g string, s *State) {
	lr := fr.loops[h]
	if lr == nil {
		ex.failf("back edge to unknown loop header")
	}
	s = s.clone()
	s.vars[lr.kKey] = ex.u.define("k", SInt, plus(s.vars[lr.kKey], "1"))
	lr.nBack++
	edgeTag := ""
	if lr.nBack > 1 {
		edgeTag = fmt.Sprintf(".%d", lr.nBack) // a second back edge (continue) gets its own obligations
	}
	// property hooks first: their obligations must not lean on the invariants about to be asserted on this edge
	if ex.atBackEdge != nil && fr.top {
		ex.atBackEdge(ex, fr, lr, lr.nBack, g, s)
	}
	for i, inv := range lr.invs {
		env := ex.specEnv(fr, s, lr)
		t, err := env.evalBool(inv.Expr)
		if err != nil {
			ex.failf("%s loop %d invariant: %v", fr.fn.String(), lr.ord, err)
		}
		ex.oblige(fmt.Sprintf("%s%s#loop%d-preserve%s:%s", shortFn(fr.fn), ex.sfx(fr), lr.ord, edgeTag, clauseLabel(inv, i)), "loop-preserve", g, t, inv.Src, ex.clauseWhere(inv))
	}
}

func (ex *Exec) clauseWhere(c Clause) string {
	return fmt.Sprintf("%s:%d", strings.TrimPrefix(c.File, "/repo/"), c.Line)
}

func clauseLabel(c Clause, i int) string {
	if c.Label != "" {
		return c.Label
	}
	return fmt.Sprintf("%d", i+1)
}

func shortFn(fn *ssa.Function) string {
	s := fn.String()
	s = strings.ReplaceAll(s, "github.com/dave/dst/decorator/resolver/", "")
	s = strings.ReplaceAll(s, "github.com/dave/dst/", "")
	s = strings.ReplaceAll(s, "github.com/dave/", "")
	s = strings.ReplaceAll(s, "golang.org/x/tools/go/ast/", "")
	return s
}

// autoInvariants: facts the engine maintains for range-over-slice loops (rangeindex idiom).
func (ex *Exec) autoInvariants(fr *frame, lr *loopRec) []Clause {
	if fr.contract == nil || len(fr.contract.Foreach) == 0 {
		return nil
	}
	src, dst, ok := detectForeach(lr)
	if !ok {
		return nil
	}
	var out []Clause
	for i, t := range fr.contract.Foreach {
		text := strings.ReplaceAll(strings.ReplaceAll(t.Src, "$src", src), "$dst", dst)
		e, err := parseSpec(text)
		if err != nil {
			ex.failf("foreach invariant %q: %v", text, err)
		}
		lbl := t.Label
		if lbl == "" {
			lbl = fmt.Sprint(i + 1)
		}
		out = append(out, Clause{Label: "foreach_" + lbl, Expr: e, Src: text, File: t.File, Line: t.Line})
	}
	return out
}

// addrText renders a FieldAddr chain as contract text (out.Lhs, n.Type.Params).
func addrText(v ssa.Value) (string, bool) {
	switch x := v.(type) {
	case *ssa.FieldAddr:
		st := deref(x.X.Type())
		base, ok := addrText(x.X)
		if !ok {
			return "", false
		}
		return base + "." + st.Underlying().(*types.Struct).Field(x.Field).Name(), true
	case *ssa.UnOp:
		if x.Op != token.MUL {
			return "", false
		}
		if a, ok := x.X.(*ssa.Alloc); ok && a.Comment != "" {
			return a.Comment, true
		}
		return addrText(x.X)
	}
	return "", false
}

// detectForeach recognises `for _, v := range SRC { DST = append(DST, f(v)) }`.
func detectForeach(lr *loopRec) (src, dst string, ok bool) {
	h := lr.header
	iff, isIf := h.Instrs[len(h.Instrs)-1].(*ssa.If)
	if !isIf {
		return
	}
	cond, isBin := iff.Cond.(*ssa.BinOp)
	if !isBin {
		return
	}
	call, isCall := cond.Y.(*ssa.Call)
	if !isCall {
		return
	}
	if b, isB := call.Call.Value.(*ssa.Builtin); !isB || b.Name() != "len" {
		return
	}
	ld, isLd := call.Call.Args[0].(*ssa.UnOp)
	if !isLd {
		return
	}
	src, ok = addrText(ld.X)
	if !ok {
		return
	}
	ok = false
	n := 0
	for b := range lr.blocks {
		for _, in := range b.Instrs {
			st, isSt := in.(*ssa.Store)
			if !isSt {
				continue
			}
			ac, isC := st.Val.(*ssa.Call)
			if !isC {
				continue
			}
			if bi, isB := ac.Call.Value.(*ssa.Builtin); !isB || bi.Name() != "append" {
				continue
			}
			d1, ok1 := addrText(st.Addr)
			a0, isLd := ac.Call.Args[0].(*ssa.UnOp)
			if !ok1 || !isLd {
				continue
			}
			d2, ok2 := addrText(a0.X)
			if ok2 && d1 == d2 {
				dst = d1
				n++
			}
		}
	}
	ok = n == 1
	return
}

// specEnv builds the evaluation environment of the function being executed.
func (ex *Exec) specEnv(fr *frame, cur *State, lr *loopRec) *SpecEnv {
	env := &SpecEnv{ex: ex, vars: map[string]Val{}, cur: cur, old: fr.entry}
	if fr.fn.Pkg != nil {
		env.pkg = fr.fn.Pkg.Pkg
	}
	for k, v := range fr.params {
		env.vars[k] = v
		env.vars["$arg_"+k] = v // the parameter's entry value, whatever local shadows its name
	}
	for k, v := range fr.specVars {
		env.vars[k] = v
	}
	// free variables of a closure: the captured variable's current value under its own name
	for _, fv := range fr.fn.FreeVars {
		if v, ok := fr.regs[fv]; ok && v.Loc != nil && v.Loc.Kind == LLocal {
			if _, shadow := env.vars[fv.Name()]; shadow {
				continue
			}
			if pv, isPtr := ex.ptrLocals(cur)[v.Loc.Key]; isPtr {
				env.vars[fv.Name()] = pv
			} else if t, live := cur.vars[v.Loc.Key]; live {
				env.vars[fv.Name()] = Val{T: t, Typ: deref(fv.Type())}
			}
		}
	}
	// named locals that are live
	names := map[string][]*ssa.Alloc{}
	for a, key := range fr.allocKey {
		if _, live := cur.vars[key]; live && a.Comment != "" {
			names[a.Comment] = append(names[a.Comment], a)
		}
	}
	for n, as := range names {
		if _, shadow := env.vars[n]; shadow && !isParamAlloc(fr, as) {
			continue
		}
		pick := as[0]
		if len(as) > 1 {
			sort.Slice(as, func(i, j int) bool { return as[i].Pos() < as[j].Pos() })
			pick = as[len(as)-1]
			if lr != nil {
				for _, a := range as {
					if containsStr(lr.modLocal, fr.allocKey[a]) {
						pick = a
					}
				}
			}
		}
		env.vars[n] = Val{T: cur.vars[fr.allocKey[pick]], Typ: deref(pick.Type())}
	}
	// named array-typed locals: the current row of their backing array
	for v, rv := range fr.regs {
		a, ok := v.(*ssa.Alloc)
		if !ok || a.Comment == "" || rv.T == "" {
			continue
		}
		at := deref(a.Type())
		if at == nil || !isRowArray(at) {
			continue
		}
		if _, shadow := env.vars[a.Comment]; shadow && !isParamAlloc(fr, []*ssa.Alloc{a}) {
			continue
		}
		env.vars[a.Comment] = ex.u.load(cur, &Loc{Kind: LCell, Base: rv.T, Typ: at})
	}
	if lr != nil {
		env.entry = lr.entrySt
		env.vars["$k"] = intVal(cur.vars[lr.kKey])
		ex.roleVars(fr, lr, cur, env)
		for k, v := range lr.vars {
			env.vars[k] = v
		}
	}
	return env
}

func isParamAlloc(fr *frame, as []*ssa.Alloc) bool {
	for _, a := range as {
		for _, p := range fr.fn.Params {
			if p.Name() == a.Comment {
				return true
			}
		}
	}
	return false
}

func containsStr(xs []string, x string) bool { return contains(xs, x) }

func (ex *Exec) havocAll(s *State) {
	u := ex.u
	if os.Getenv("GOVC_DEBUG_HAVOC") != "" {
		buf := make([]byte, 2048)
		n := runtime.Stack(buf, false)
		fmt.Fprintf(os.Stderr, "havocAll at:\n%s\n", buf[:n])
	}
	var ks []string
	for k := range u.keySorts {
		if !isLocalKey(k) {
			ks = append(ks, k)
		}
	}
	sort.Strings(ks)
	before := ""
	if _, ok := u.keySorts["next"]; ok {
		before = u.get(s, "next")
	}
	for _, k := range ks {
		u.havoc(s, k)
	}
	if before != "" {
		// the allocation counter only grows (the fresh constant is used on this path only)
		u.fact(app(">=", u.get(s, "next"), before))
	}
	ex.warn("havoc of the whole heap (unmodelled call)")
}

// ---- blocks and instructions ----

func (ex *Exec) execBlock(fr *frame, b *ssa.BasicBlock, g string, s *State, ins []edgeIn, phiGuards []string, edge func(to *ssa.BasicBlock, eg string, es *State)) {
	u := ex.u
	for _, in := range b.Instrs {
		switch in := in.(type) {
		case *ssa.Phi:
			var vs []Val
			var es []edgeIn
			for _, e := range ins {
				for pi, p := range b.Preds {
					if p == e.from {
						vs = append(vs, ex.value(fr, in.Edges[pi], e.st))
						es = append(es, e)
						break
					}
				}
			}
			if len(vs) == 0 {
				ex.failf("phi without incoming")
			}
			fr.regs[in] = ex.mergeVals(vs, es, "phi")
		case *ssa.If:
			c := ex.value(fr, in.Cond, s)
			ct := u.define("c", SBool, c.T)
			if ct != "false" {
				edge(b.Succs[0], u.define("e", SBool, and(g, ct)), s)
			}
			if ct != "true" {
				edge(b.Succs[1], u.define("e", SBool, and(g, not(ct))), s.clone())
			}
			return
		case *ssa.Jump:
			edge(b.Succs[0], g, s)
			return
		case *ssa.Return:
			var res []Val
			for _, r := range in.Results {
				res = append(res, ex.value(fr, r, s))
			}
			fr.rets = append(fr.rets, retInfo{g, s, res})
			return
		case *ssa.Panic:
			return
		default:
			g = ex.instr(fr, in, g, s)
			if g == "false" {
				return
			}
		}
	}
}

func (ex *Exec) constVal(c *ssa.Const) Val {
	t := c.Type()
	if c.Value == nil {
		if isStruct(t) {
			return zeroVal(t)
		}
		return Val{T: zeroTerm(t), Typ: t}
	}
	switch sortOf(t) {
	case SInt:
		return Val{T: intLit(c.Int64()), Typ: t}
	case SBool:
		if c.Value.String() == "true" {
			return Val{T: "true", Typ: t}
		}
		return Val{T: "false", Typ: t}
	case SStr:
		s := c.Value.ExactString()
		// constant.StringVal
		return Val{T: ex.u.strLit(constStr(c)), Typ: t, Fields: nil}.withNote(s)
	case "Real":
		return Val{T: ex.u.freshConst("real", "Real"), Typ: t}
	}
	ex.failf("constant of type %s", typeKey(t))
	return Val{}
}

func (v Val) withNote(string) Val { return v }

// value evaluates an SSA operand.
func (ex *Exec) value(fr *frame, v ssa.Value, s *State) Val {
	switch x := v.(type) {
	case *ssa.Const:
		return ex.constVal(x)
	case *ssa.Global:
		key := "GV$" + x.Pkg.Pkg.Path() + "." + x.Name()
		t := deref(x.Type())
		if isStruct(t) {
			ex.failf("struct-typed global %s", x.Name())
		}
		ex.u.keySort(key, sortOf(t))
		return Val{Typ: x.Type(), Loc: &Loc{Kind: LLocal, Key: key, Typ: t}}
	case *ssa.Function:
		return Val{T: intLit(int64(1000000 + ex.u.typeID(types.NewPointer(x.Signature)))), Typ: x.Type(), Fields: nil, Tuple: nil, Loc: nil}.asFunc(x)
	case *ssa.Builtin:
		return Val{Typ: x.Type()}
	}
	if r, ok := fr.regs[v]; ok {
		return r
	}
	ex.failf("%s: value %s (%T) not available", fr.fn.String(), v.Name(), v)
	return Val{}
}

// function values: remembered out of band
var funcVals = map[string]*ssa.Function{}

func (v Val) asFunc(f *ssa.Function) Val {
	funcVals[v.T] = f
	return v
}

type closureVal struct {
	fn       *ssa.Function
	bindings []Val
}

var closures = map[string]*closureVal{}

func (ex *Exec) term(v Val, what string) string {
	if v.T != "" {
		return v.T
	}
	if v.Loc != nil && v.Loc.Kind == LField && len(v.Loc.Path) == 0 {
		return v.Loc.Base
	}
	ex.failf("need an SMT term for an address-only value (%s)", what)
	return ""
}

func (ex *Exec) instr(fr *frame, in ssa.Instruction, g string, s *State) string {
	u := ex.u
	switch in := in.(type) {
	case *ssa.DebugRef:
		return g
	case *ssa.Alloc:
		t := deref(in.Type())
		if isReflectValue(t) {
			key := fmt.Sprintf("L!f%d.%s.refl", fr.id, in.Name())
			fr.allocKey[in] = key
			u.keySort(key, SInt)
			s.vars[key] = "0"
			fr.regs[in] = Val{Typ: in.Type(), Loc: &Loc{Kind: LLocal, Key: key, Typ: t}}
			return g
		}
		if at, ok := t.Underlying().(*types.Array); ok && isReflectValue(at.Elem()) {
			// the variadic operand array of reflect.Append: elements kept out of band
			key := fmt.Sprintf("L!f%d.%s.reflarr", fr.id, in.Name())
			fr.allocKey[in] = key
			u.keySort(key, SInt)
			s.vars[key] = "0"
			fr.regs[in] = Val{Typ: in.Type(), Loc: &Loc{Kind: LLocal, Key: key, Typ: t}}
			return g
		}
		if isStruct(t) && !in.Heap {
			// a struct-typed local whose address does not escape: cells of this frame, out of reach of callees
			key := fmt.Sprintf("L!f%d.%s", fr.id, in.Name())
			if in.Comment != "" {
				key += "." + in.Comment
			}
			fr.allocKey[in] = key
			loc := &Loc{Kind: LLocal, Key: key, Typ: t}
			u.storeLoc(s, loc, zeroVal(t))
			fr.regs[in] = Val{Typ: in.Type(), Loc: loc}
			return g
		}
		if isStruct(t) {
			r := u.alloc(s, g)
			ex.zeroInit(s, r, t)
			fr.regs[in] = Val{T: r, Typ: in.Type()}
			if ex.traceOn {
				ex.trace = append(ex.trace, Event{Kind: "alloc", Guard: g, Instr: in, St: s.clone(), Val: fr.regs[in], Typ: t, Depth: len(ex.stack) - 1})
			}
			return g
		}
		if at, ok := t.Underlying().(*types.Array); ok {
			r := u.alloc(s, g)
			if at.Len() > 0 {
				ex.zeroArray(s, r, at.Elem())
			}
			fr.regs[in] = Val{T: r, Typ: in.Type()}
			return g
		}
		key := fmt.Sprintf("L!f%d.%s", fr.id, in.Name())
		if in.Comment != "" {
			key += "." + in.Comment
		}
		fr.allocKey[in] = key
		u.keySort(key, sortOf(t))
		s.vars[key] = zeroTerm(t)
		if ex.localTyp == nil {
			ex.localTyp = map[string]types.Type{}
		}
		ex.localTyp[key] = t
		fr.regs[in] = Val{Typ: in.Type(), Loc: &Loc{Kind: LLocal, Key: key, Typ: t}}
		return g
	case *ssa.Store:
		addr := ex.value(fr, in.Addr, s)
		val := ex.value(fr, in.Val, s)
		if len(addr.PtrAlts) > 0 {
			return ex.storeChoice(fr, in, addr, val, g, s)
		}
		l := ex.locOf(addr)
		if l == nil {
			ex.failf("store through unknown pointer")
		}
		if l.Kind != LLocal {
			g = ex.assumeNonNil(g, l)
		}
		if l.Kind == LLocal && (val.Refl != nil || isReflectValue(l.Typ)) {
			ex.ptrLocals(s)[l.Key] = val
			return g
		}
		if l.Kind == LLocal && ((val.Loc != nil && val.T == "") || len(val.PtrAlts) > 0) {
			// a pointer-valued local holding a known address: keep the Val out of band
			ex.ptrLocals(s)[l.Key] = val
			s.vars[l.Key] = "0"
			u.keySort(l.Key, SInt)
			return g
		}
		if val.T == "" && len(val.Fields) == 0 {
			val.T = ex.term(val, "stored value")
		}
		if cv, ok := closures[val.T]; ok && l.Kind == LLocal {
			_ = cv
		}
		u.storeLoc(s, l, val)
		if l.Kind == LLocal {
			delete(ex.ptrLocals(s), l.Key)
		}
		if ex.traceOn && l.Kind == LField {
			ex.trace = append(ex.trace, Event{Kind: "store", Guard: g, Instr: in, St: s.clone(), Loc: l, Val: val, Typ: l.Typ, Depth: len(ex.stack) - 1})
		}
		return g
	case *ssa.UnOp:
		x := ex.value(fr, in.X, s)
		switch in.Op {
		case token.MUL:
			if len(x.PtrAlts) > 0 {
				return ex.loadChoice(fr, in, x, g, s)
			}
			l := ex.locOf(x)
			if l == nil {
				ex.failf("load through unknown pointer %s", in.X.Name())
			}
			if l.Kind == LLocal {
				if pv, ok := ex.ptrLocals(s)[l.Key]; ok {
					fr.regs[in] = pv
					return g
				}
				if strings.HasPrefix(l.Key, "GV$") {
					if _, ok := s.vars[l.Key]; !ok {
						s.vars[l.Key] = u.get(s, l.Key)
					}
				}
			} else {
				g = ex.assumeNonNil(g, l)
			}
			v := u.load(s, l)
			v.Typ = in.Type()
			if l.Kind != LLocal {
				v = ex.nameVal(v, in.Name())
				if ex.unwritten(s, l) {
					// the cell still holds its entry value: bounded by the entry allocation counter
					u.fact(implies(g, ex.wf(v, newState())))
				} else {
					u.fact(implies(g, ex.wf(v, s)))
					// the entry heap is closed under its own allocation counter, whatever was written since
					if l.Kind == LField && !isStruct(l.Typ) {
						ev := u.load(newState(), l)
						u.fact(ex.wf(ev, newState()))
					}
				}
			}
			fr.regs[in] = v
		case token.NOT:
			fr.regs[in] = Val{T: not(x.T), Typ: in.Type()}
		case token.SUB:
			fr.regs[in] = Val{T: app("-", x.T), Typ: in.Type()}
		default:
			ex.warn("unary %s abstracted", in.Op)
			fr.regs[in] = Val{T: u.freshConst("unop", sortOf(in.Type())), Typ: in.Type()}
		}
		return g
	case *ssa.BinOp:
		fr.regs[in] = ex.binop(fr, in, s)
		return g
	case *ssa.ChangeType:
		v := ex.value(fr, in.X, s)
		v.Typ = in.Type()
		fr.regs[in] = v
		return g
	case *ssa.Convert:
		v := ex.value(fr, in.X, s)
		from, to := sortOfSafe(in.X.Type()), sortOfSafe(in.Type())
		if from == to && from == SInt {
			v.Typ = in.Type()
			fr.regs[in] = v
			return g
		}
		ex.warn("conversion %s -> %s abstracted", typeKey(in.X.Type()), typeKey(in.Type()))
		fr.regs[in] = Val{T: u.freshConst("conv", sortOf(in.Type())), Typ: in.Type()}
		return g
	case *ssa.ChangeInterface:
		v := ex.value(fr, in.X, s)
		v.Typ = in.Type()
		fr.regs[in] = v
		return g
	case *ssa.MakeInterface:
		x := ex.value(fr, in.X, s)
		xt := in.X.Type()
		var ref string
		switch sortOfSafe(xt) {
		case SInt:
			ref = ex.term(x, "interface payload")
		case SBool:
			ref = ite(x.T, "1", "0")
		default:
			ref = u.freshConst("boxed", SInt)
			u.fact(app(">=", ref, "0"))
		}
		fr.regs[in] = Val{T: mkI(intLit(int64(u.typeID(xt))), ref), Typ: in.Type()}
		return g
	case *ssa.TypeAssert:
		x := ex.value(fr, in.X, s)
		var ok string
		var val Val
		if _, isI := in.AssertedType.Underlying().(*types.Interface); isI {
			ok = u.implementsTerm(iTyp(x.T), in.AssertedType)
			val = Val{T: x.T, Typ: in.AssertedType}
		} else {
			ok = eq(iTyp(x.T), intLit(int64(u.typeID(in.AssertedType))))
			if kt, known := ex.knownType[x.T]; known {
				if kt == u.typeID(in.AssertedType) {
					ok = "true"
				} else {
					ok = "false"
				}
			}
			switch sortOfSafe(in.AssertedType) {
			case SInt:
				val = Val{T: iRef(x.T), Typ: in.AssertedType}
			case SBool:
				val = Val{T: eq(iRef(x.T), "1"), Typ: in.AssertedType}
			default:
				if isStruct(in.AssertedType) {
					ex.failf("type assertion to struct value")
				}
				val = Val{T: u.freshConst("unboxed", sortOf(in.AssertedType)), Typ: in.AssertedType}
			}
		}
		if in.CommaOk {
			okn := u.define("ok", SBool, ok)
			zero := Val{T: zeroTerm(in.AssertedType), Typ: in.AssertedType}
			fr.regs[in] = Val{Typ: in.Type(), Tuple: []Val{{T: ite(okn, val.T, zero.T), Typ: in.AssertedType}, {T: okn, Typ: tBool}}}
			return g
		}
		fr.regs[in] = val
		return u.define("g", SBool, and(g, ok)) // a failed assertion panics: the path ends
	case *ssa.Extract:
		t := ex.value(fr, in.Tuple, s)
		if in.Index >= len(t.Tuple) {
			ex.failf("extract %d of %d", in.Index, len(t.Tuple))
		}
		fr.regs[in] = t.Tuple[in.Index]
		return g
	case *ssa.FieldAddr:
		x := ex.value(fr, in.X, s)
		st := deref(in.X.Type())
		f := st.Underlying().(*types.Struct).Field(in.Field)
		var l *Loc
		var ownerT types.Type
		if x.Loc != nil && x.Loc.Kind == LField {
			l = &Loc{Kind: LField, Base: x.Loc.Base, Owner: x.Loc.Owner, Path: append(append([]string{}, x.Loc.Path...), f.Name()), Typ: f.Type()}
			ownerT = ex.ownerType(x.Loc.Owner)
		} else if x.Loc != nil && (x.Loc.Kind == LElem || x.Loc.Kind == LLocal) {
			l = u.sub(x.Loc, f.Name(), f.Type())
			fr.regs[in] = Val{Typ: in.Type(), Loc: l}
			return g
		} else {
			l = &Loc{Kind: LField, Base: ex.term(x, "struct pointer"), Owner: ex.regOwner(st), Path: []string{f.Name()}, Typ: f.Type()}
			ownerT = st
		}
		l, _ = u.canonLoc(l, ownerT)
		if isStruct(f.Type()) && len(l.Path) == 0 {
			ex.regOwner(f.Type())
			fr.regs[in] = Val{T: l.Base, Typ: in.Type()}
			return g
		}
		fr.regs[in] = Val{Typ: in.Type(), Loc: l}
		return g
	case *ssa.Field:
		x := ex.value(fr, in.X, s)
		if in.Field >= len(x.Fields) {
			ex.failf("field %d of struct value with %d fields", in.Field, len(x.Fields))
		}
		fr.regs[in] = x.Fields[in.Field]
		return g
	case *ssa.IndexAddr:
		x := ex.value(fr, in.X, s)
		i := ex.value(fr, in.Index, s)
		switch xt := in.X.Type().Underlying().(type) {
		case *types.Slice:
			g = u.define("g", SBool, and(g, app("<=", "0", i.T), app("<", i.T, sLen(x.T))))
			fr.regs[in] = Val{Typ: in.Type(), Loc: &Loc{Kind: LElem, Base: sArr(x.T), Idx: cellIdx(sOff(x.T), i.T), Owner: elemKey(xt.Elem()), Typ: xt.Elem()}}
		case *types.Pointer:
			at := xt.Elem().Underlying().(*types.Array)
			if isReflectValue(at.Elem()) && x.Loc != nil && x.Loc.Kind == LLocal {
				// element i of the operand array: a cell of its own
				key := x.Loc.Key + "." + i.T
				u.keySort(key, SInt)
				fr.regs[in] = Val{Typ: in.Type(), Loc: &Loc{Kind: LLocal, Key: key, Typ: at.Elem()}}
				return g
			}
			fr.regs[in] = Val{Typ: in.Type(), Loc: &Loc{Kind: LElem, Base: ex.term(x, "array pointer"), Idx: i.T, Owner: elemKey(at.Elem()), Typ: at.Elem()}}
		default:
			ex.failf("indexaddr on %s", typeKey(in.X.Type()))
		}
		return g
	case *ssa.Index:
		x := ex.value(fr, in.X, s)
		i := ex.value(fr, in.Index, s)
		if sortOfSafe(in.X.Type()) == SStr {
			fr.regs[in] = Val{T: app("strAt", x.T, i.T), Typ: in.Type()}
			return g
		}
		if isRowArray(in.X.Type()) && x.T != "" {
			fr.regs[in] = Val{T: sel(x.T, i.T), Typ: in.Type()}
			return g
		}
		ex.failf("index on %s", typeKey(in.X.Type()))
	case *ssa.Slice:
		return ex.sliceInstr(fr, in, g, s)
	case *ssa.MakeSlice:
		ln := ex.value(fr, in.Len, s)
		cp := ex.value(fr, in.Cap, s)
		et := in.Type().Underlying().(*types.Slice).Elem()
		r := u.alloc(s, g)
		ex.zeroArray(s, r, et)
		fr.regs[in] = Val{T: mkS(r, "0", ln.T, cp.T), Typ: in.Type()}
		return g
	case *ssa.MakeMap:
		mt := in.Type().Underlying().(*types.Map)
		r := u.alloc(s, g)
		_, dk := ex.mapKeys(mt)
		u.fact(eq(sel(u.get(s, dk), r), "((as const (Array "+sortOf(mt.Key())+" Bool)) false)"))
		fr.regs[in] = Val{T: r, Typ: in.Type()}
		return g
	case *ssa.MapUpdate:
		m := ex.value(fr, in.Map, s)
		k := ex.value(fr, in.Key, s)
		v := ex.value(fr, in.Value, s)
		g = u.define("g", SBool, and(g, not(eq(m.T, "0"))))
		var pre *State
		if ex.traceOn {
			pre = s.clone()
		}
		ex.mapSet(s, m, k, v)
		if ex.traceOn {
			ex.trace = append(ex.trace, Event{Kind: "mapupdate", Guard: g, Instr: in, St: s.clone(), Pre: pre, Args: []Val{m, k, v}, Depth: len(ex.stack) - 1})
		}
		return g
	case *ssa.Lookup:
		x := ex.value(fr, in.X, s)
		i := ex.value(fr, in.Index, s)
		if _, ok := in.X.Type().Underlying().(*types.Map); ok {
			v := ex.mapGet(s, x, i)
			v = ex.nameVal(v, in.Name())
			if in.CommaOk {
				fr.regs[in] = Val{Typ: in.Type(), Tuple: []Val{v, ex.mapHas(s, x, i)}}
			} else {
				fr.regs[in] = v
			}
			if v.T != "" {
				u.fact(implies(g, ex.wf(v, s)))
			}
			return g
		}
		fr.regs[in] = Val{T: app("strAt", x.T, i.T), Typ: in.Type()}
		return g
	case *ssa.Range:
		return ex.rangeInstr(fr, in, g, s)
	case *ssa.Next:
		return ex.nextInstr(fr, in, g, s)
	case *ssa.MakeClosure:
		fn := in.Fn.(*ssa.Function)
		var bs []Val
		for _, b := range in.Bindings {
			bs = append(bs, ex.value(fr, b, s))
		}
		r := u.alloc(s, g)
		closures[r] = &closureVal{fn, bs}
		fr.regs[in] = Val{T: r, Typ: in.Type()}
		return g
	case *ssa.Call:
		return ex.call(fr, in, g, s)
	case *ssa.Defer:
		fr.defers = append(fr.defers, in)
		if fr.top && fr.fn.Recover != nil {
			fr.deferState, fr.deferGuard, fr.deferCount = s.clone(), g, len(fr.defers)
		}
		return g
	case *ssa.RunDefers:
		if fr.top && fr.fn.Recover != nil && fr.deferGuard != "" {
			// base the panic state on this one (every local exists here); it is havoced before use
			fr.deferState, fr.deferCount = s.clone(), len(fr.defers)
		}
		for i := len(fr.defers) - 1; i >= 0; i-- {
			d := fr.defers[i]
			var res Val
			g, res = ex.callCommon(fr, &d.Call, d, g, s)
			_ = res
		}
		return g
	case *ssa.Go, *ssa.Send, *ssa.Select, *ssa.MakeChan:
		ex.failf("concurrency instruction %T outside the verified subset", in)
	}
	ex.failf("unsupported instruction %T in %s", in, fr.fn.String())
	return g
}

// unwritten: the heap array behind location l has not been written or havoced since entry.
func (ex *Exec) unwritten(s *State, l *Loc) bool {
	var key string
	switch l.Kind {
	case LField:
		key = heapKey(l.Owner, l.Path)
	case LElem:
		key = "A$" + l.Owner
		if len(l.Path) > 0 {
			key += "$" + strings.Join(l.Path, ".")
		}
	case LCell:
		key = "C$" + elemKey(l.Typ)
	default:
		return false
	}
	if isStruct(l.Typ) {
		return false
	}
	_, written := s.vars[key]
	return !written
}

// ptrLocals: address-valued locals (kept symbolically, not as SMT terms).
func (ex *Exec) ptrLocals(s *State) map[string]Val {
	if s.ptrs == nil {
		s.ptrs = map[string]Val{}
	}
	return s.ptrs
}

func (ex *Exec) nameVal(v Val, hint string) Val {
	if v.T == "" || len(v.T) < 40 {
		return v
	}
	v.T = ex.u.define(hint, sortOf(v.Typ), v.T)
	return v
}

func (ex *Exec) assumeNonNil(g string, l *Loc) string {
	switch l.Kind {
	case LField, LCell:
		if strings.HasPrefix(l.Base, "(emb$") || strings.HasPrefix(l.Base, "(|emb$") {
			return g
		}
		return ex.u.define("g", SBool, and(g, not(eq(l.Base, "0"))))
	}
	return g
}

func (ex *Exec) zeroInit(s *State, ref string, t types.Type) {
	u := ex.u
	owner := ex.regOwner(t)
	for _, lf := range leaves(t) {
		l := &Loc{Kind: LField, Base: ref, Owner: owner, Path: lf.Path, Typ: lf.Typ}
		l, _ = u.canonLoc(l, t)
		v := u.load(s, l)
		u.fact(eq(v.T, zeroTerm(lf.Typ)))
	}
}

func (ex *Exec) zeroArray(s *State, ref string, et types.Type) {
	u := ex.u
	for _, lf := range leaves(et) {
		key := "A$" + elemKey(et)
		if len(lf.Path) > 0 {
			key += "$" + strings.Join(lf.Path, ".")
		}
		srt := sortOf(lf.Typ)
		u.keySort(key, arr2(srt))
		if srt == SStr {
			u.fact("(forall ((j!z Int)) (! (= (select (select " + u.get(s, key) + " " + ref + ") j!z) str!empty) :pattern ((select (select " + u.get(s, key) + " " + ref + ") j!z))))")
		} else {
			u.fact(eq(sel(u.get(s, key), ref), "((as const (Array Int "+srt+")) "+zeroTerm(lf.Typ)+")"))
		}
	}
}

func constStr(c *ssa.Const) string {
	return constantStringVal(c)
}

func (ex *Exec) binop(fr *frame, in *ssa.BinOp, s *State) Val {
	u := ex.u
	x := ex.value(fr, in.X, s)
	y := ex.value(fr, in.Y, s)
	t := in.Type()
	srt := sortOfSafe(in.X.Type())
	switch in.Op {
	case token.EQL, token.NEQ:
		var r string
		if len(x.PtrAlts) > 0 || len(y.PtrAlts) > 0 {
			c, other := x, y
			if len(c.PtrAlts) == 0 {
				c, other = y, x
			}
			if other.T != "0" || len(other.PtrAlts) > 0 || other.Loc != nil {
				ex.failf("comparison of a multi-address pointer with something other than nil")
			}
			var isNil []string
			for _, a := range c.PtrAlts {
				switch {
				case a.V.Loc != nil:
				case a.V.T != "":
					isNil = append(isNil, and(a.Guard, eq(a.V.T, "0")))
				}
			}
			r = or(isNil...)
			if in.Op == token.NEQ {
				r = not(r)
			}
			return Val{T: r, Typ: t}
		}
		switch srt {
		case SSlice:
			other := x
			if isNilConst(in.X) {
				other = y
			}
			r = eq(sArr(other.T), "0")
		case "struct":
			ex.failf("struct comparison")
		default:
			r = eq(ex.term(x, "comparison"), ex.term(y, "comparison"))
		}
		if in.Op == token.NEQ {
			r = not(r)
		}
		return Val{T: r, Typ: t}
	case token.LSS, token.LEQ, token.GTR, token.GEQ:
		if srt == SStr {
			switch in.Op {
			case token.LSS:
				return Val{T: app("strlt", x.T, y.T), Typ: t}
			case token.GTR:
				return Val{T: app("strlt", y.T, x.T), Typ: t}
			case token.LEQ:
				return Val{T: not(app("strlt", y.T, x.T)), Typ: t}
			default:
				return Val{T: not(app("strlt", x.T, y.T)), Typ: t}
			}
		}
		return Val{T: app(in.Op.String(), x.T, y.T), Typ: t}
	case token.ADD:
		if srt == SStr {
			return Val{T: app("sconcat", x.T, y.T), Typ: t}
		}
		return Val{T: plus(x.T, y.T), Typ: t}
	case token.SUB:
		return Val{T: minus(x.T, y.T), Typ: t}
	case token.MUL:
		return Val{T: app("*", x.T, y.T), Typ: t}
	case token.QUO:
		u.assume("integer division modelled as SMT div (differs from Go for negative operands)")
		return Val{T: app("div", x.T, y.T), Typ: t}
	case token.REM:
		u.assume("integer remainder modelled as SMT mod (differs from Go for negative operands)")
		return Val{T: app("mod", x.T, y.T), Typ: t}
	case token.AND, token.OR, token.XOR, token.SHL, token.SHR, token.AND_NOT:
		if srt == SBool {
			switch in.Op {
			case token.AND:
				return Val{T: and(x.T, y.T), Typ: t}
			case token.OR:
				return Val{T: or(x.T, y.T), Typ: t}
			}
		}
		ex.warn("bit operation %s abstracted", in.Op)
		return Val{T: u.freshConst("bitop", SInt), Typ: t}
	}
	ex.failf("binop %s", in.Op)
	return Val{}
}

func isNilConst(v ssa.Value) bool {
	c, ok := v.(*ssa.Const)
	return ok && c.Value == nil
}

func (ex *Exec) sliceInstr(fr *frame, in *ssa.Slice, g string, s *State) string {
	u := ex.u
	x := ex.value(fr, in.X, s)
	val := func(v ssa.Value) string {
		if v == nil {
			return ""
		}
		return ex.value(fr, v, s).T
	}
	lo, hi, mx := val(in.Low), val(in.High), val(in.Max)
	if lo == "" {
		lo = "0"
	}
	switch xt := in.X.Type().Underlying().(type) {
	case *types.Slice:
		if hi == "" {
			hi = sLen(x.T)
		}
		cp := sCap(x.T)
		if mx != "" {
			cp = mx
		}
		g = u.define("g", SBool, and(g, app("<=", "0", lo), app("<=", lo, hi), app("<=", hi, cp), app("<=", cp, sCap(x.T))))
		fr.regs[in] = Val{T: u.define(in.Name(), SSlice, mkS(sArr(x.T), plus(sOff(x.T), lo), minus(hi, lo), minus(cp, lo))), Typ: in.Type()}
	case *types.Pointer:
		at := xt.Elem().Underlying().(*types.Array)
		if isReflectValue(at.Elem()) && x.Loc != nil && x.Loc.Kind == LLocal {
			var elems []Val
			for k := int64(0); k < at.Len(); k++ {
				if ev, ok := ex.ptrLocals(s)[x.Loc.Key+"."+intLit(k)]; ok {
					elems = append(elems, ev)
				}
			}
			fr.regs[in] = Val{Typ: in.Type(), ReflElems: elems, T: "reflvals"}
			return g
		}
		n := intLit(at.Len())
		if hi == "" {
			hi = n
		}
		cp := n
		if mx != "" {
			cp = mx
		}
		fr.regs[in] = Val{T: u.define(in.Name(), SSlice, mkS(ex.term(x, "array pointer"), lo, minus(hi, lo), minus(cp, lo))), Typ: in.Type()}
	case *types.Basic:
		u.declareFun("substr", []string{SStr, SInt, SInt}, SStr)
		if hi == "" {
			hi = app("strlen", x.T)
		}
		r := app("substr", x.T, lo, hi)
		u.fact(implies(g, eq(app("strlen", r), minus(hi, lo))))
		g = u.define("g", SBool, and(g, app("<=", "0", lo), app("<=", lo, hi), app("<=", hi, app("strlen", x.T))))
		fr.regs[in] = Val{T: r, Typ: in.Type()}
	default:
		ex.failf("slice of %s", typeKey(in.X.Type()))
	}
	return g
}

// ---- maps ----

func (ex *Exec) mapKeys(mt *types.Map) (string, string) {
	u := ex.u
	ks, vs := sortOf(mt.Key()), ""
	if isStruct(mt.Elem()) {
		ex.failf("map with struct values")
	}
	vs = sortOf(mt.Elem())
	name := elemKey(mt.Key()) + "$" + elemKey(mt.Elem())
	mk, dk := "M$"+name, "MD$"+name
	u.keySort(mk, "(Array Int (Array "+ks+" "+vs+"))")
	u.keySort(dk, "(Array Int (Array "+ks+" Bool))")
	return mk, dk
}

func (ex *Exec) mapGet(s *State, m, k Val) Val {
	u := ex.u
	mt := m.Typ.Underlying().(*types.Map)
	mk, dk := ex.mapKeys(mt)
	has := sel(sel(u.get(s, dk), m.T), k.T)
	return Val{T: ite(has, sel(sel(u.get(s, mk), m.T), k.T), zeroTerm(mt.Elem())), Typ: mt.Elem()}
}

func (ex *Exec) mapHas(s *State, m, k Val) Val {
	u := ex.u
	mt := m.Typ.Underlying().(*types.Map)
	_, dk := ex.mapKeys(mt)
	return boolVal(sel(sel(u.get(s, dk), m.T), k.T))
}

func (ex *Exec) mapSet(s *State, m, k, v Val) {
	u := ex.u
	mt := m.Typ.Underlying().(*types.Map)
	mk, dk := ex.mapKeys(mt)
	cm, cd := u.get(s, mk), u.get(s, dk)
	ks := sortOf(mt.Key())
	vt := ex.term(v, "map value")
	nm := u.freshConst(mk, u.keySorts[mk])
	nd := u.freshConst(dk, u.keySorts[dk])
	u.fact(eq(nm, store(cm, m.T, store(sel(cm, m.T), k.T, vt))))
	u.fact(eq(nd, store(cd, m.T, store(sel(cd, m.T), k.T, "true"))))
	// redundant pointwise forms: they give e-matching the pre-update lookups as ground terms
	u.fact(fmt.Sprintf("(forall ((k!m %s)) (! (= (select (select %s %s) k!m) (ite (= k!m %s) true (select (select %s %s) k!m))) :pattern ((select (select %s %s) k!m))))", ks, nd, m.T, k.T, cd, m.T, nd, m.T))
	u.fact(fmt.Sprintf("(forall ((k!m %s)) (! (= (select (select %s %s) k!m) (ite (= k!m %s) %s (select (select %s %s) k!m))) :pattern ((select (select %s %s) k!m))))", ks, nm, m.T, k.T, vt, cm, m.T, nm, m.T))
	s.vars[mk] = nm
	s.vars[dk] = nd
}

func (ex *Exec) mapDelete(s *State, m, k Val) {
	u := ex.u
	mt := m.Typ.Underlying().(*types.Map)
	_, dk := ex.mapKeys(mt)
	cd := u.get(s, dk)
	u.set(s, dk, u.keySorts[dk], store(cd, m.T, store(sel(cd, m.T), k.T, "false")))
}

// ---- range / next ----

func (ex *Exec) rangeInstr(fr *frame, in *ssa.Range, g string, s *State) string {
	u := ex.u
	x := ex.value(fr, in.X, s)
	rs := &rangeState{x: x}
	key := fmt.Sprintf("L!f%d.range.%s", fr.id, in.Name())
	rs.key = key
	switch xt := in.X.Type().Underlying().(type) {
	case *types.Map:
		rs.isMap = true
		rs.keyT, rs.valT = xt.Key(), xt.Elem()
		srt := "(Array " + sortOf(xt.Key()) + " Bool)"
		u.keySort(key, srt)
		s.vars[key] = "((as const " + srt + ") false)"
		// Go: an entry present when the statement starts and not removed is produced exactly once;
		// an entry added during the iteration may or may not be. Remember the starting key set.
		_, dk0 := ex.mapKeys(xt)
		// a declared constant (usable in patterns, unlike a defined term that may contain ite)
		rs.dom0 = u.freshConst("rng.dom0", srt)
		u.fact(eq(rs.dom0, sel(u.get(s, dk0), x.T)))
	case *types.Basic:
		u.keySort(key, SInt)
		s.vars[key] = "(- 1)"
	default:
		ex.failf("range over %s", typeKey(in.X.Type()))
	}
	fr.rangeIt[in] = rs
	fr.regs[in] = Val{Typ: in.Type()}
	return g
}

func (ex *Exec) nextInstr(fr *frame, in *ssa.Next, g string, s *State) string {
	u := ex.u
	rs := fr.rangeIt[in.Iter]
	if rs == nil {
		ex.failf("next on unknown iterator")
	}
	ok := u.freshConst("rng.ok", SBool)
	if rs.isMap {
		mt := rs.x.Typ.Underlying().(*types.Map)
		_, dk := ex.mapKeys(mt)
		ks := sortOf(rs.keyT)
		k := u.freshConst("rng.k", ks)
		visited := s.vars[rs.key]
		dom := sel(u.get(s, dk), rs.x.T)
		kv := Val{T: k, Typ: rs.keyT}
		v := ex.mapGet(s, rs.x, kv)
		v = ex.nameVal(v, "rng.v")
		u.fact(implies(and(g, ok), and(sel(dom, k), not(sel(visited, k)))))
		u.fact(implies(and(g, not(ok)), "(forall ((k!r "+ks+")) (! (=> (and (select "+rs.dom0+" k!r) (select "+dom+" k!r)) (select "+visited+" k!r)) :pattern ((select "+dom+" k!r)) :pattern ((select "+rs.dom0+" k!r))))"))
		u.fact(implies(and(g, ok), ex.wf(v, s)))
		s.vars[rs.key] = u.define("visited", u.keySorts[rs.key], ite(ok, store(visited, k, "true"), visited))
		fr.regs[in] = Val{Typ: in.Type(), Tuple: []Val{{T: ok, Typ: tBool}, kv, v}}
		return g
	}
	// string
	i := u.freshConst("rng.i", SInt)
	last := s.vars[rs.key]
	u.fact(implies(and(g, ok), and(app("<", last, i), app("<", i, app("strlen", rs.x.T)))))
	r := app("strAt", rs.x.T, i)
	s.vars[rs.key] = ite(ok, i, last)
	fr.regs[in] = Val{Typ: in.Type(), Tuple: []Val{{T: ok, Typ: tBool}, {T: i, Typ: tInt}, {T: r, Typ: types.Typ[types.Rune]}}}
	return g
}

// roleVars binds $i (loop counter) and $n (its bound) read off the header's condition, so that
// invariants do not depend on the names of locals. For the range-over-slice idiom the counter is
// rangeindex+1, i.e. the index of the element about to be visited; $v names are not provided.
func (ex *Exec) roleVars(fr *frame, lr *loopRec, cur *State, env *SpecEnv) {
	h := lr.header
	for _, in := range h.Instrs {
		if nx, ok := in.(*ssa.Next); ok {
			if rs := fr.rangeIt[nx.Iter]; rs != nil {
				if t, live := cur.vars[rs.key]; live {
					if rs.isMap {
						env.vars["$visited"] = Val{T: t, Typ: types.NewArray(tBool, -1)}
					} else {
						env.vars["$pos"] = intVal(t)
					}
				}
			}
		}
	}
	iff, ok := h.Instrs[len(h.Instrs)-1].(*ssa.If)
	if !ok {
		return
	}
	cond, ok := iff.Cond.(*ssa.BinOp)
	if !ok {
		return
	}
	stored := func(a *ssa.Alloc) bool {
		for _, r := range *a.Referrers() {
			if st, ok := r.(*ssa.Store); ok && st.Addr == a && lr.blocks[st.Block()] {
				return true
			}
		}
		return false
	}
	// trace an operand to (alloc, +1?) or to a value defined outside the loop
	trace := func(v ssa.Value) (a *ssa.Alloc, plus1 bool, outside ssa.Value) {
		if b, ok := v.(*ssa.BinOp); ok && b.Op == token.ADD {
			if c, ok := b.Y.(*ssa.Const); ok && c.Value != nil && c.Int64() == 1 {
				if u, ok := b.X.(*ssa.UnOp); ok && u.Op == token.MUL {
					if al, ok := u.X.(*ssa.Alloc); ok {
						return al, true, nil
					}
				}
			}
		}
		if u, ok := v.(*ssa.UnOp); ok && u.Op == token.MUL {
			if al, ok := u.X.(*ssa.Alloc); ok {
				return al, false, nil
			}
		}
		if in, ok := v.(ssa.Instruction); ok && !lr.blocks[in.Block()] {
			return nil, false, v
		}
		if _, ok := v.(*ssa.Const); ok {
			return nil, false, v
		}
		if _, ok := v.(*ssa.Parameter); ok {
			return nil, false, v
		}
		return nil, false, nil
	}
	valOf := func(v ssa.Value) (Val, bool) {
		a, p1, out := trace(v)
		if a != nil {
			key, ok := fr.allocKey[a]
			if !ok {
				return Val{}, false
			}
			t, live := cur.vars[key]
			if !live {
				return Val{}, false
			}
			if p1 {
				t = plus(t, "1")
			}
			return Val{T: t, Typ: deref(a.Type())}, true
		}
		if out != nil {
			if c, ok := out.(*ssa.Const); ok {
				return ex.constVal(c), true
			}
			if r, ok := fr.regs[out]; ok {
				return r, true
			}
		}
		return Val{}, false
	}
	xa, _, _ := trace(cond.X)
	ya, _, _ := trace(cond.Y)
	var iv, nv ssa.Value
	switch {
	case xa != nil && stored(xa):
		iv, nv = cond.X, cond.Y
	case ya != nil && stored(ya):
		iv, nv = cond.Y, cond.X
	default:
		return
	}
	if v, ok := valOf(iv); ok {
		env.vars["$i"] = v
	}
	if v, ok := valOf(nv); ok {
		env.vars["$n"] = v
	}
}

// loopPrecise: for heap-field keys written in the loop only by stores through loop-invariant
// object pointers, the list of those object terms (so that only these cells are havoced).
func (ex *Exec) loopPrecise(fr *frame, lr *loopRec, st *State) map[string][]string {
	whole := map[string]bool{}
	bases := map[string][]string{}
	var blocks []*ssa.BasicBlock
	for b := range lr.blocks {
		blocks = append(blocks, b)
	}
	sort.Slice(blocks, func(i, j int) bool { return blocks[i].Index < blocks[j].Index })
	for _, b := range blocks {
		for _, in := range b.Instrs {
			if stx, ok := in.(*ssa.Store); ok {
				ks := ex.addrKeys(fr, stx.Addr)
				base, ok := ex.storeBases(fr, lr, stx.Addr, st, ks)
				for i, k := range ks {
					if ok && strings.HasPrefix(k, "H$") && base[i] != "" {
						bases[k] = appendUniq(bases[k], base[i])
					} else {
						whole[k] = true
					}
				}
				continue
			}
			if call, ok := in.(*ssa.Call); ok {
				if ks, pr, ok := ex.callPrecise(fr, lr, &call.Call, st); ok {
					for i, k := range ks {
						if pr != nil && pr[i] != "" && !strings.Contains(pr[i], "dummy!") {
							bases[k] = appendUniq(bases[k], pr[i])
						} else {
							whole[k] = true
						}
					}
					continue
				}
			}
			tmp := map[string]bool{}
			ex.instrModKeys(fr, in, tmp, map[*ssa.Function]bool{})
			for k := range tmp {
				whole[k] = true
			}
		}
	}
	out := map[string][]string{}
	for k, bs := range bases {
		if !whole[k] {
			out[k] = bs
		}
	}
	return out
}

// storeBases: the object term each key of a field store is written at, when the root pointer is loop-invariant.
func (ex *Exec) storeBases(fr *frame, lr *loopRec, addr ssa.Value, st *State, keys []string) ([]string, bool) {
	fa, ok := addr.(*ssa.FieldAddr)
	if !ok {
		return nil, false
	}
	var path []string
	cur := ssa.Value(fa)
	for {
		f, ok := cur.(*ssa.FieldAddr)
		if !ok {
			break
		}
		stt := deref(f.X.Type())
		path = append([]string{stt.Underlying().(*types.Struct).Field(f.Field).Name()}, path...)
		cur = f.X
	}
	root, ok := ex.invariantVal(fr, lr, cur, st)
	if !ok || root.T == "" {
		return nil, false
	}
	rootT := deref(cur.Type())
	if rootT == nil || !isStruct(rootT) {
		return nil, false
	}
	owner := ex.regOwner(rootT)
	// leaves under the path, canonicalised like leafKeys does, remembering the base of each
	t := rootT
	for _, p := range path {
		t, _ = fieldType(t, p)
	}
	byKey := map[string]string{}
	for _, lf := range leaves(t) {
		full := append(append([]string{}, path...), lf.Path...)
		l := &Loc{Kind: LField, Base: root.T, Owner: owner, Path: full, Typ: lf.Typ}
		cl, _ := ex.u.canonLoc(l, rootT)
		byKey[heapKey(cl.Owner, cl.Path)] = cl.Base
	}
	out := make([]string, len(keys))
	for i, k := range keys {
		out[i] = byKey[k]
	}
	return out, true
}

// invariantVal: the value of v if it cannot change during the loop.
func (ex *Exec) invariantVal(fr *frame, lr *loopRec, v ssa.Value, st *State) (Val, bool) {
	switch x := v.(type) {
	case *ssa.Const:
		return ex.constVal(x), true
	case *ssa.Parameter, *ssa.FreeVar:
		r, ok := fr.regs[v]
		return r, ok
	case *ssa.UnOp:
		if x.Op == token.MUL {
			if a, ok := x.X.(*ssa.Alloc); ok {
				for _, r := range *a.Referrers() {
					if sx, ok := r.(*ssa.Store); ok && sx.Addr == a && lr.blocks[sx.Block()] {
						return Val{}, false
					}
				}
				key, ok := fr.allocKey[a]
				if !ok {
					return Val{}, false
				}
				if pv, ok := ex.ptrLocals(st)[key]; ok {
					return pv, true
				}
				t, live := st.vars[key]
				if !live {
					return Val{}, false
				}
				return Val{T: t, Typ: deref(a.Type())}, true
			}
		}
	}
	if in, ok := v.(ssa.Instruction); ok && !lr.blocks[in.Block()] {
		r, ok := fr.regs[v]
		return r, ok
	}
	return Val{}, false
}

// callPrecise: keys and object terms of a contracted callee's modifies clause, with loop-invariant
// arguments substituted (others are dummies, which make the affected keys whole-array).
func (ex *Exec) callPrecise(fr *frame, lr *loopRec, c *ssa.CallCommon, st *State) (keys []string, precise []string, ok bool) {
	if c.IsInvoke() {
		return nil, nil, false
	}
	callee := c.StaticCallee()
	if callee == nil {
		return nil, nil, false
	}
	fc, has := ex.db.Funcs[ssaFuncKey(callee)]
	if !has || !fc.HasMod {
		return nil, nil, false
	}
	env := &SpecEnv{ex: ex, vars: map[string]Val{}, cur: st, old: st, pkg: ex.pkgByPath(fc.Pkg)}
	names := ex.paramNames(fc, callee, callee.Signature)
	for i, n := range names {
		if i >= len(c.Args) {
			break
		}
		t := c.Args[i].Type()
		if isStruct(t) {
			continue
		}
		if v, ok := ex.invariantVal(fr, lr, c.Args[i], st); ok && v.T != "" {
			env.vars[n] = v
		} else {
			env.vars[n] = Val{T: "dummy!" + n, Typ: t}
		}
	}
	keys = append(keys, "next")
	precise = append(precise, "")
	for _, it := range fc.Modifies {
		if strings.TrimSpace(it) == "newobjects" {
			keys = append(keys, "*new")
			precise = append(precise, "")
			continue
		}
		if aks, ok := ex.allButKeys(it, env); ok {
			for _, k := range aks {
				keys = append(keys, k)
				precise = append(precise, "")
			}
			continue
		}
		ks, pr := ex.modItem(it, env)
		for i, k := range ks {
			keys = append(keys, k)
			if pr != nil {
				precise = append(precise, pr[i])
			} else {
				precise = append(precise, "")
			}
		}
	}
	return keys, precise, true
}

func (ex *Exec) sfx(fr *frame) string {
	if fr.top {
		return ex.unitSuffix
	}
	return ""
}

// trackAcrossMerge: for every tracked state predicate P of the verified function, prove P on each
// incoming edge's state (under that edge's guard) and then record P for the merged state. The
// merged state equals the state of the taken edge on every path (that is what merge() asserts),
// so P(merged) follows from the per-edge facts by congruence; stating it spares the solver the
// case split through the quantifiers of P.
func (ex *Exec) trackAcrossMerge(fr *frame, b *ssa.BasicBlock, ins []edgeIn, g string, s *State) {
	for ti, tr := range fr.contract.Tracks {
		okAll := true
		for i, in := range ins {
			env := ex.specEnv(fr, in.st, nil)
			t, err := env.evalBool(tr.Expr)
			if err != nil {
				okAll = false // e.g. a local named by the predicate is not live on this edge
				break
			}
			bi := 9999 // the merge of the return sites
			if b != nil {
				bi = b.Index
			}
			ex.oblige(fmt.Sprintf("%s%s#join%d.%d:%s", shortFn(fr.fn), ex.sfx(fr), bi, i+1, clauseLabel(tr, ti)), "join", in.guard, t, tr.Src, ex.clauseWhere(tr))
		}
		if !okAll {
			continue
		}
		env := ex.specEnv(fr, s, nil)
		t, err := env.evalBool(tr.Expr)
		if err != nil {
			continue
		}
		ex.u.fact(implies(g, t))
	}
}

// mergePtrLocal: out-of-band values (addresses, reflect handles) of local key k on all incoming edges.
func mergePtrLocal(ins []edgeIn, k string) (Val, bool) {
	var vs []Val
	for _, in := range ins {
		if in.st.ptrs == nil {
			return Val{}, false
		}
		v, ok := in.st.ptrs[k]
		if !ok {
			return Val{}, false
		}
		vs = append(vs, v)
	}
	same := true
	for _, v := range vs[1:] {
		if v.Refl != vs[0].Refl || v.T != vs[0].T || v.Loc != vs[0].Loc || !samePtrAlts(v, vs[0]) {
			same = false
		}
	}
	if same {
		return vs[0], true
	}
	if vs[0].Refl == nil {
		for _, v := range vs {
			if v.Refl != nil || (v.Loc == nil && len(v.PtrAlts) == 0 && v.T != "0") {
				return Val{}, false
			}
		}
		var guards []string
		for _, in := range ins {
			guards = append(guards, in.guard)
		}
		return choicePtr(guards, vs), true
	}
	c := &reflVal{Kind: "choice"}
	for i, v := range vs {
		if v.Refl == nil {
			return Val{}, false
		}
		c.Alts = append(c.Alts, reflAlt{ins[i].guard, v})
	}
	return Val{Typ: vs[0].Typ, Refl: c}, true
}

// ---- pointers that are one of several known addresses ----

func samePtrAlts(a, b Val) bool {
	if len(a.PtrAlts) != len(b.PtrAlts) {
		return false
	}
	return len(a.PtrAlts) == 0 || &a.PtrAlts[0] == &b.PtrAlts[0]
}

// choicePtr: the pointer that is vs[i] when guards[i] holds.
func choicePtr(guards []string, vs []Val) Val {
	out := Val{Typ: vs[0].Typ}
	for i, v := range vs {
		if len(v.PtrAlts) > 0 {
			for _, a := range v.PtrAlts {
				out.PtrAlts = append(out.PtrAlts, PtrAlt{and(guards[i], a.Guard), a.V})
			}
			continue
		}
		out.PtrAlts = append(out.PtrAlts, PtrAlt{guards[i], v})
	}
	return out
}

// altLoc: the location alternative a denotes, or nil for the nil pointer.
func (ex *Exec) altLoc(a PtrAlt) *Loc {
	if a.V.Loc != nil {
		return a.V.Loc
	}
	if a.V.T == "0" {
		return nil
	}
	return ex.locOf(a.V)
}

func (ex *Exec) loadChoice(fr *frame, in *ssa.UnOp, x Val, g string, s *State) string {
	u := ex.u
	var vals []Val
	var guards []string
	for _, a := range x.PtrAlts {
		l := ex.altLoc(a)
		if l == nil {
			g = and(g, not(a.Guard)) // nil dereference panics: the path continues only otherwise
			continue
		}
		if l.Kind != LLocal && l.Base != "" && a.V.Loc == nil {
			g = and(g, implies(a.Guard, not(eq(l.Base, "0"))))
		}
		v := u.load(s, l)
		v.Typ = in.Type()
		vals = append(vals, v)
		guards = append(guards, a.Guard)
	}
	if len(vals) == 0 {
		fr.regs[in] = Val{T: u.freshConst("deadload", sortOf(in.Type())), Typ: in.Type()}
		return g
	}
	if vals[0].T == "" {
		ex.failf("load of a struct value through a multi-address pointer")
	}
	n := u.freshConst(in.Name(), sortOf(in.Type()))
	for i, v := range vals {
		u.fact(implies(and(g, guards[i]), eq(n, v.T)))
	}
	rv := Val{T: n, Typ: in.Type()}
	u.fact(implies(g, ex.wf(rv, s)))
	fr.regs[in] = rv
	return g
}

func (ex *Exec) storeChoice(fr *frame, in *ssa.Store, addr, val Val, g string, s *State) string {
	u := ex.u
	if val.T == "" {
		val.T = ex.term(val, "stored value")
	}
	for _, a := range addr.PtrAlts {
		l := ex.altLoc(a)
		if l == nil {
			g = and(g, not(a.Guard))
			continue
		}
		cur := u.load(s, l)
		if cur.T == "" {
			ex.failf("store of a struct value through a multi-address pointer")
		}
		nv := Val{T: ite(a.Guard, val.T, cur.T), Typ: val.Typ}
		u.storeLoc(s, l, nv)
		if ex.traceOn && l.Kind == LField {
			ex.trace = append(ex.trace, Event{Kind: "store", Guard: and(g, a.Guard), Instr: in, St: s.clone(), Loc: l, Val: val, Typ: l.Typ, Depth: len(ex.stack) - 1})
		}
	}
	return g
}

// recoveredPath models the second way out of a function that defers a recovering closure: a panic
// raised anywhere after the defer was registered, the deferred calls running with recover()
// returning that (non-nil) panic value, and — if they return normally — the function returning the
// current values of its named results (the SSA Recover block). The state at the panic is any state:
// the whole heap and every local of the frame are havoced (the allocation counter only grows).
// The resulting exit is kept apart from the normal returns (fr.recovered); postconditions are
// checked at it separately.
func (ex *Exec) recoveredPath(fr *frame) {
	u := ex.u
	s := fr.deferState.clone()
	g := fr.deferGuard
	before := ""
	if _, ok := u.keySorts["next"]; ok {
		before = u.get(s, "next")
	}
	ex.havocAll(s)
	pfx := fmt.Sprintf("L!f%d.", fr.id)
	var lk []string
	for k := range s.vars {
		if strings.HasPrefix(k, pfx) {
			lk = append(lk, k)
		}
	}
	sort.Strings(lk)
	for _, k := range lk {
		if _, ok := u.keySorts[k]; ok {
			u.havoc(s, k)
		}
	}
	if before != "" {
		u.fact(implies(g, app(">=", u.get(s, "next"), before)))
	}
	saved := ex.recovering
	ex.recovering = true
	defer func() { ex.recovering = saved }()
	rets := len(fr.rets)
	for i := fr.deferCount - 1; i >= 0; i-- {
		g, _ = ex.callCommon(fr, &fr.defers[i].Call, fr.defers[i], g, s)
		if g == "false" {
			return
		}
	}
	for _, in := range fr.fn.Recover.Instrs {
		switch in := in.(type) {
		case *ssa.Return:
			var res []Val
			for _, r := range in.Results {
				res = append(res, ex.value(fr, r, s))
			}
			fr.recovered = &retInfo{g, s, res}
		case *ssa.DebugRef:
		default:
			g = ex.instr(fr, in.(ssa.Instruction), g, s)
		}
	}
	fr.rets = fr.rets[:rets]
}

// loopExit: the "loop N exit" clauses of the contract, asserted in the state in which the loop is left.
func (ex *Exec) loopExit(fr *frame, h *ssa.BasicBlock, ord int, g string, s *State) {
	lr := fr.loops[h]
	cls := fr.contract.LoopExits[ord]
	if lr == nil || len(cls) == 0 {
		return
	}
	lr.exits++
	for i, c := range cls {
		env := ex.specEnv(fr, s, lr)
		t, err := env.evalBool(c.Expr)
		if err != nil {
			ex.failf("%s loop %d exit: %v", shortFn(fr.fn), ord, err)
		}
		sfx := ""
		if lr.exits > 1 {
			sfx = fmt.Sprintf(".%d", lr.exits)
		}
		ex.oblige(fmt.Sprintf("%s%s#loop%d-exit%s:%s", shortFn(fr.fn), ex.sfx(fr), ord, sfx, clauseLabel(c, i)), "loop-exit", g, t, c.Src, ex.clauseWhere(c))
	}
}
