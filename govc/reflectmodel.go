package main

// The reflect handle model (DESIGN.md Appendix B), assumed and audited separately.
// A reflect.Value is a tagged handle; no reflection metadata is modelled. The field
// `parent.<name>` reached through FieldByName is an abstract location:
//   RF$hdr : parent(Iface) -> name(Str) -> Slice     the slice header stored in a list field
//   RF$val : parent(Iface) -> name(Str) -> Iface     the value stored in a single-node field
//   A$rnode: array -> index -> Iface                 backing arrays of those lists
// Cursor methods and applyList are verified with parent and name symbolic, so only the abstract
// location is needed; rfieldLink ties it to the typed field arrays for the per-case obligations of apply.

import (
	"fmt"
	"go/types"
	"strings"

	"golang.org/x/tools/go/ssa"
)

type reflVal struct {
	Kind   string // val, struct, field, slice, elem, zero, type, appended
	X      Val    // val: the Go value; struct: the parent
	Parent string // field/slice/elem: parent Iface term
	Name   string // field name Str term
	Slice  string // slice/appended: Slice term (view into A$rnode)
	Idx    string // elem: absolute index term; Arr: array id
	Arr    string
	Alts   []reflAlt // choice: the handle differs by incoming path
}

type reflAlt struct {
	Guard string
	V     Val
}

const (
	rfHdr  = "RF$hdr"
	rfVal  = "RF$val"
	rfNode = "A$rnode"
)

func (ex *Exec) reflKeys() {
	u := ex.u
	u.keySort(rfHdr, "(Array Iface (Array Str Slice))")
	u.keySort(rfVal, "(Array Iface (Array Str Iface))")
	u.keySort(rfNode, arr2(SIface))
}

func (ex *Exec) rHdr(s *State, parent, name string) string {
	ex.reflKeys()
	return sel(sel(ex.u.get(s, rfHdr), parent), name)
}

func isReflectValue(t types.Type) bool {
	n, ok := t.(*types.Named)
	return ok && n.Obj().Name() == "Value" && n.Obj().Pkg() != nil && n.Obj().Pkg().Path() == "reflect"
}

func reflOf(v Val) *reflVal {
	if v.Refl != nil {
		return v.Refl
	}
	return nil
}

// modelReflect handles calls into package reflect; ok=false if the callee is not modelled.
func (ex *Exec) modelReflect(name string, callee *ssa.Function, args []Val, g string, s *State) (Val, string, bool) {
	u := ex.u
	rt := func(r *reflVal, term string) Val {
		var t types.Type
		if callee.Signature.Results().Len() > 0 {
			t = callee.Signature.Results().At(0).Type()
		}
		return Val{T: term, Typ: t, Refl: r}
	}
	need := func(i int, kinds ...string) *reflVal {
		if i >= len(args) || args[i].Refl == nil {
			ex.failf("reflect model: %s applied to an untracked reflect.Value", name)
		}
		r := args[i].Refl
		for _, k := range kinds {
			if r.Kind == k {
				return r
			}
		}
		ex.failf("reflect model: %s applied to a %s handle", name, r.Kind)
		return nil
	}
	ex.reflKeys()
	u.assume("reflect handle model (DESIGN.md Appendix B): FieldByName denotes the field's slice header / value; Index, Slice, Copy, Set, SetLen, Append operate on that header and its backing array")
	switch name {
	case "reflect.ValueOf":
		return rt(&reflVal{Kind: "val", X: args[0]}, args[0].T), g, true
	case "reflect.Indirect":
		r := need(0, "val")
		// the pointer must be non-nil
		return rt(&reflVal{Kind: "struct", X: r.X, Parent: r.X.T}, r.X.T), u.define("g", SBool, and(g, not(eq(iRef(r.X.T), "0")))), true
	case "(reflect.Value).FieldByName":
		r := need(0, "struct")
		return rt(&reflVal{Kind: "field", Parent: r.Parent, Name: args[1].T}, ""), g, true
	case "(reflect.Value).Len":
		r := need(0, "field", "slice", "appended")
		return Val{T: sLen(ex.reflSlice(s, r)), Typ: tInt}, g, true
	case "(reflect.Value).Index":
		r := need(0, "field", "slice", "appended")
		sl := ex.reflSlice(s, r)
		i := args[1].T
		g2 := u.define("g", SBool, and(g, app("<=", "0", i), app("<", i, sLen(sl))))
		return rt(&reflVal{Kind: "elem", Arr: sArr(sl), Idx: plus(sOff(sl), i)}, ""), g2, true
	case "(reflect.Value).Slice":
		r := need(0, "field", "slice", "appended")
		sl := ex.reflSlice(s, r)
		lo, hi := args[1].T, args[2].T
		g2 := u.define("g", SBool, and(g, app("<=", "0", lo), app("<=", lo, hi), app("<=", hi, sCap(sl))))
		nt := u.define("rslice", SSlice, mkS(sArr(sl), plus(sOff(sl), lo), minus(hi, lo), minus(sCap(sl), lo)))
		return rt(&reflVal{Kind: "slice", Slice: nt}, nt), g2, true
	case "reflect.Copy":
		d, sr := need(0, "slice", "field", "appended"), need(1, "slice", "field", "appended")
		ds, ss := ex.reflSlice(s, d), ex.reflSlice(s, sr)
		n := u.define("rcopy.n", SInt, ite(app("<=", sLen(ds), sLen(ss)), sLen(ds), sLen(ss)))
		A := u.get(s, rfNode)
		j := "j!c"
		body := ite(and(app("<=", sOff(ds), j), app("<", j, plus(sOff(ds), n))), sel(sel(A, sArr(ss)), plus(sOff(ss), minus(j, sOff(ds)))), sel(sel(A, sArr(ds)), j))
		row := u.defineArrayDual("rcopy.row", "(Array Int Iface)", fmt.Sprintf("(lambda ((%s Int)) %s)", j, body),
			[]string{fmt.Sprintf("(forall ((%s Int)) (! (= (select $SELF %s) %s) :pattern ((select $SELF %s))))", j, j, body, j)})
		u.set(s, rfNode, arr2(SIface), store(A, sArr(ds), row))
		return Val{T: n, Typ: tInt}, g, true
	case "reflect.Zero":
		return rt(&reflVal{Kind: "val", X: Val{T: nilIface}}, nilIface), g, true
	case "(reflect.Value).Type", "reflect.TypeOf":
		return rt(&reflVal{Kind: "type"}, u.freshConst("rtype", SIface)), g, true
	case "(reflect.Value).Set":
		if args[0].Refl != nil && args[0].Refl.Kind == "choice" {
			// apply the store for each alternative and select by the path taken
			base := s.clone()
			type eff struct {
				g  string
				st *State
			}
			var effs []eff
			for _, alt := range args[0].Refl.Alts {
				st := base.clone()
				if _, _, ok := ex.modelReflect(name, callee, []Val{alt.V, args[1]}, g, st); !ok {
					ex.failf("reflect model: Set on an alternative failed")
				}
				effs = append(effs, eff{alt.Guard, st})
			}
			for _, k := range []string{rfNode, rfVal, rfHdr} {
				cur := u.get(base, k)
				for i := len(effs) - 1; i >= 0; i-- {
					cur = ite(effs[i].g, u.get(effs[i].st, k), cur)
				}
				u.set(s, k, u.keySorts[k], cur)
			}
			return Val{}, g, true
		}
		dst := need(0, "elem", "field")
		src := args[1].Refl
		if src == nil {
			ex.failf("reflect model: Set from an untracked value")
		}
		switch dst.Kind {
		case "elem":
			if src.Kind != "val" {
				ex.failf("reflect model: element Set from a %s handle", src.Kind)
			}
			A := u.get(s, rfNode)
			u.set(s, rfNode, arr2(SIface), store(A, dst.Arr, store(sel(A, dst.Arr), dst.Idx, src.X.T)))
		case "field":
			switch src.Kind {
			case "val":
				V := u.get(s, rfVal)
				u.set(s, rfVal, u.keySorts[rfVal], store(V, dst.Parent, store(sel(V, dst.Parent), dst.Name, src.X.T)))
			case "appended", "slice", "field":
				H := u.get(s, rfHdr)
				u.set(s, rfHdr, u.keySorts[rfHdr], store(H, dst.Parent, store(sel(H, dst.Parent), dst.Name, ex.reflSlice(s, src))))
			default:
				ex.failf("reflect model: field Set from a %s handle", src.Kind)
			}
		}
		return Val{}, g, true
	case "(reflect.Value).SetLen":
		r := need(0, "field")
		sl := ex.reflSlice(s, r)
		n := args[1].T
		g2 := u.define("g", SBool, and(g, app("<=", "0", n), app("<=", n, sCap(sl))))
		H := u.get(s, rfHdr)
		u.set(s, rfHdr, u.keySorts[rfHdr], store(H, r.Parent, store(sel(H, r.Parent), r.Name, mkS(sArr(sl), sOff(sl), n, sCap(sl)))))
		return Val{}, g2, true
	case "reflect.Append":
		r := need(0, "field", "slice", "appended")
		sl := ex.reflSlice(s, r)
		if len(args) < 2 {
			ex.failf("reflect.Append without operands")
		}
		// the variadic operand: a slice of reflect.Value built in place; only single-element appends occur
		elems := args[1].ReflElems
		if len(elems) != 1 || elems[0].Refl == nil || elems[0].Refl.Kind != "val" {
			ex.failf("reflect model: Append with other than one tracked operand")
		}
		res := ex.appendOne(s, g, sl, elems[0].Refl.X.T)
		return rt(&reflVal{Kind: "appended", Slice: res}, res), g, true
	case "(reflect.Value).IsValid":
		need(0, "elem", "field", "val", "struct")
		return boolVal("true"), g, true
	case "(reflect.Value).Interface":
		r := need(0, "elem", "val")
		if r.Kind == "val" {
			return Val{T: r.X.T, Typ: types.NewInterfaceType(nil, nil)}, g, true
		}
		return Val{T: sel(sel(u.get(s, rfNode), r.Arr), r.Idx), Typ: types.NewInterfaceType(nil, nil)}, g, true
	case "(reflect.Value).Kind":
		r := need(0, "val")
		// reflect.Ptr for pointers; interfaces holding pointers are what ValueOf sees here
		k := u.freshConst("rkind", SInt)
		u.fact(implies(not(eq(iTyp(r.X.T), "0")), eq(k, "22"))) // reflect.Ptr == 22 for the pointer types of dst nodes
		u.fact(implies(eq(iTyp(r.X.T), "0"), eq(k, "0")))
		return Val{T: k, Typ: callee.Signature.Results().At(0).Type()}, g, true
	case "(reflect.Value).IsNil":
		r := need(0, "val")
		if _, known := ex.knownType[r.X.T]; known {
			return boolVal("false"), g, true // per-case units fix a non-nil pointer of a known type
		}
		return boolVal(eq(iRef(r.X.T), "0")), g, true
	}
	if strings.HasPrefix(name, "reflect.") || strings.HasPrefix(name, "(reflect.") {
		ex.failf("reflect model: %s is not modelled", name)
	}
	return Val{}, g, false
}

// reflSlice: the Slice term a field/slice/appended handle denotes in state s.
func (ex *Exec) reflSlice(s *State, r *reflVal) string {
	switch r.Kind {
	case "field":
		return ex.rHdr(s, r.Parent, r.Name)
	case "slice", "appended":
		return r.Slice
	}
	ex.failf("reflect model: %s handle is not a slice", r.Kind)
	return ""
}

// appendOne: append(sl, x) on the reflective node arrays (Go-spec append).
func (ex *Exec) appendOne(s *State, g, sl, x string) string {
	u := ex.u
	A := u.get(s, rfNode)
	sT := u.define("rapp.s", SSlice, sl)
	ln := sLen(sT)
	fits := u.define("rapp.fits", SBool, app("<", ln, sCap(sT)))
	u.keySort("next", SInt)
	next := u.get(s, "next")
	newArr := u.define("rapp.arr", SInt, ite(fits, sArr(sT), next))
	capN := u.freshConst("rapp.cap", SInt)
	junk := u.freshConst("rapp.junk", "(Array Int Iface)")
	j := "j!r"
	inPlace := ite(eq(j, plus(sOff(sT), ln)), x, sel(sel(A, sArr(sT)), j))
	fresh := ite(and(app("<=", "0", j), app("<", j, ln)), sel(sel(A, sArr(sT)), plus(sOff(sT), j)), ite(eq(j, ln), x, sel(junk, j)))
	body := ite(fits, inPlace, fresh)
	row := u.defineArrayDual("rapp.row", "(Array Int Iface)", fmt.Sprintf("(lambda ((%s Int)) %s)", j, body),
		[]string{fmt.Sprintf("(forall ((%s Int)) (! (= (select $SELF %s) %s) :pattern ((select $SELF %s))))", j, j, body, j)})
	u.fact(implies(and(g, not(fits)), app(">", capN, ln)))
	u.set(s, rfNode, arr2(SIface), store(A, newArr, row))
	u.set(s, "next", SInt, ite(fits, next, plus(next, "1")))
	return u.define("rapp.res", SSlice, mkS(newArr, ite(fits, sOff(sT), "0"), plus(ln, "1"), ite(fits, sCap(sT), capN)))
}
