package main

// Per-case verification of the generated 54-way type switches: one unit per node type, with the
// dynamic type of the switched parameter fixed, and schema obligations expanded from the struct
// definitions in dst.go / go/ast (go/types), not from the generator table.

import (
	"fmt"
	"os"
	"regexp"

	"go/types"
	"golang.org/x/tools/go/ssa"
	"sort"
	"strings"
)

type nodeType struct {
	Name  string       // "ArrayType"
	Named *types.Named // dst.ArrayType
	Ptr   types.Type   // *dst.ArrayType
}

// nodeTypes: struct types of package pkg whose pointer implements <pkg>.Node.
func (p *Program) nodeTypes(pkgPath string) []nodeType {
	pk := p.pkgs[pkgPath]
	if pk == nil {
		return nil
	}
	nodeObj := pk.Types.Scope().Lookup("Node")
	if nodeObj == nil {
		return nil
	}
	iface := nodeObj.Type().Underlying().(*types.Interface)
	var out []nodeType
	names := pk.Types.Scope().Names()
	sort.Strings(names)
	for _, n := range names {
		tn, ok := pk.Types.Scope().Lookup(n).(*types.TypeName)
		if !ok {
			continue
		}
		nt, ok := tn.Type().(*types.Named)
		if !ok || !isStruct(nt) {
			continue
		}
		pt := types.NewPointer(nt)
		if types.Implements(pt, iface) {
			out = append(out, nodeType{n, nt, pt})
		}
	}
	return out
}

type fieldClass int

const (
	fcValue     fieldClass = iota // plain value (bool, string, token, int)
	fcNodeIface                   // Expr, Stmt, Decl, Spec, Node
	fcNodePtr                     // *Ident, *FieldList, ...
	fcListIface                   // []Expr ...
	fcListPtr                     // []*Ident ...
	fcObject                      // *Object / *Scope
	fcMap                         // Package.Files / Imports
	fcDecs                        // the Decs struct
	fcOther
)

func classifyField(f *types.Var, nodeIface *types.Interface) fieldClass {
	t := f.Type()
	if f.Name() == "Decs" && isStruct(t) {
		return fcDecs
	}
	switch u := t.Underlying().(type) {
	case *types.Interface:
		if types.Implements(t, nodeIface) || implementsIface(u, nodeIface) {
			return fcNodeIface
		}
		return fcOther
	case *types.Pointer:
		if n, ok := u.Elem().(*types.Named); ok {
			if n.Obj().Name() == "Object" || n.Obj().Name() == "Scope" {
				return fcObject
			}
			if types.Implements(t, nodeIface) {
				return fcNodePtr
			}
		}
		return fcOther
	case *types.Slice:
		et := u.Elem()
		switch eu := et.Underlying().(type) {
		case *types.Interface:
			if implementsIface(eu, nodeIface) {
				return fcListIface
			}
		case *types.Pointer:
			if types.Implements(et, nodeIface) {
				return fcListPtr
			}
		}
		return fcOther
	case *types.Map:
		return fcMap
	case *types.Basic:
		return fcValue
	}
	return fcOther
}

func implementsIface(t *types.Interface, want *types.Interface) bool {
	for i := 0; i < want.NumMethods(); i++ {
		m := want.Method(i)
		obj, _, _ := types.LookupFieldOrMethod(t, false, m.Pkg(), m.Name())
		if obj == nil {
			return false
		}
	}
	return true
}

func nodeIfaceOf(p *Program, pkgPath string) *types.Interface {
	return p.pkgs[pkgPath].Types.Scope().Lookup("Node").Type().Underlying().(*types.Interface)
}

// caseOpts: fix the dynamic type of interface parameter `param` to *T.
func caseOpts(param string, nt nodeType, pkgName string) *UnitOpts {
	return &UnitOpts{
		NameSuffix:    "/" + nt.Name,
		ExtraRequires: []string{fmt.Sprintf("typeof(%s) == type(*%s.%s) && ref(%s) != 0", param, pkgName, nt.Name, param)},
		Setup: func(ex *Exec, fr *frame, st *State) {
			if v, ok := fr.params[param]; ok {
				ex.knownType[v.T] = ex.u.typeID(nt.Ptr)
			}
		},
	}
}

// ---- C06: Clone ----

// decsLeaves lists the leaves of T.Decs as (path, isDecorations).
func decsLeaves(t types.Type) []leaf {
	ft, _ := fieldType(t, "Decs")
	if ft == nil {
		return nil
	}
	var out []leaf
	for _, l := range leaves(ft) {
		out = append(out, leaf{append([]string{"Decs"}, l.Path...), l.Typ})
	}
	return out
}

func isDecorationsType(t types.Type) bool {
	n, ok := t.(*types.Named)
	return ok && n.Obj().Name() == "Decorations"
}

// notCarried: identifier-resolution links that Clone drops by design (the statement's "drops object
// and scope links"); *Object and *Scope fields are recognised by type, this table adds the one list.
var notCarried = map[string]bool{"File.Unresolved": true}

// cloneLeafConds: schema obligations that make `o` a complete copy of `n` (both spec texts denoting *T).
// nested=true: inside a signature-style inline copy (no further nesting; children must be Clone results).
func cloneLeafConds(p *Program, t *types.Named, o, n string, prefix string, nested bool, guard string, consulted map[string]bool) [][2]string {
	nodeIface := nodeIfaceOf(p, pkgDst)
	st := t.Underlying().(*types.Struct)
	var out [][2]string
	add := func(label, cond string) {
		if nested && consulted != nil {
			// inside an inline (non-Clone) copy only what printing consults is demanded
			root := prefix + label
			for _, sfx := range []string{".len", ".content", ".unshared", ".elems", ".backing", ".dropped"} {
				root = strings.TrimSuffix(root, sfx)
			}
			if !consulted[root] {
				return
			}
		}
		if guard != "" {
			cond = guard + " ==> (" + cond + ")"
		}
		out = append(out, [2]string{prefix + label, cond})
	}
	for i := 0; i < st.NumFields(); i++ {
		f := st.Field(i)
		of, nf := o+"."+f.Name(), n+"."+f.Name()
		switch classifyField(f, nodeIface) {
		case fcValue, fcOther:
			add(f.Name(), fmt.Sprintf("%s == %s", of, nf))
		case fcNodeIface:
			add(f.Name(), fmt.Sprintf("%s == nil ? %s == nil : cloneOf(%s, %s)", nf, of, of, nf))
		case fcNodePtr:
			pt := f.Type().Underlying().(*types.Pointer).Elem().(*types.Named)
			if nested {
				add(f.Name(), fmt.Sprintf("%s == nil ? %s == nil : cloneOf(%s, %s)", nf, of, of, nf))
				continue
			}
			add(f.Name(), fmt.Sprintf("%s == nil ? %s == nil : (cloneOf(%s, %s) || (%s != nil && %s != %s && !wasAllocated(%s)))", nf, of, of, nf, of, of, nf, of))
			g := fmt.Sprintf("%s != nil && !cloneOf(%s, %s)", nf, of, nf)
			if guard != "" {
				g = guard + " && " + g
			}
			out = append(out, cloneLeafConds(p, pt, of, nf, prefix+f.Name()+".", true, g, consulted)...)
		case fcListIface, fcListPtr:
			if notCarried[t.Obj().Name()+"."+f.Name()] {
				add(f.Name()+".dropped", fmt.Sprintf("len(%s) == 0", of))
				continue
			}
			add(f.Name()+".len", fmt.Sprintf("len(%s) == len(%s)", of, nf))
			add(f.Name()+".elems", fmt.Sprintf("forall i int :: 0 <= i && i < len(%s) ==> cloneOf(%s[i], %s[i])", nf, of, nf))
			add(f.Name()+".backing", fmt.Sprintf("len(%s) == 0 || !wasAllocated(arr(%s))", of, of))
		case fcObject:
			add(f.Name()+".dropped", fmt.Sprintf("%s == nil", of))
		case fcMap:
			// Package.Files / Package.Imports: fresh map with the same key set
			add(f.Name()+".fresh", fmt.Sprintf("!wasAllocated(%s)", of))
			if f.Name() == "Files" {
				add(f.Name()+".keys", fmt.Sprintf("forall k string :: has(%s, k) == has(%s, k)", of, nf))
				add(f.Name()+".values", fmt.Sprintf("forall k string :: has(%s, k) ==> cloneOf(%s[k], %s[k])", nf, of, nf))
			} else {
				add(f.Name()+".keys", fmt.Sprintf("forall k string :: has(%s, k) == has(%s, k)", of, nf))
				add(f.Name()+".values_dropped", fmt.Sprintf("forall k string :: has(%s, k) ==> %s[k] == nil", nf, of))
			}
		case fcDecs:
			for _, l := range leaves(f.Type()) {
				path := strings.Join(l.Path, ".")
				od, nd := of+"."+path, nf+"."+path
				if isDecorationsType(l.Typ) {
					add("Decs."+path+".len", fmt.Sprintf("len(%s) == len(%s)", od, nd))
					add("Decs."+path+".content", fmt.Sprintf("forall i int :: 0 <= i && i < len(%s) ==> %s[i] == %s[i]", nd, od, nd))
					add("Decs."+path+".unshared", fmt.Sprintf("len(%s) == 0 || !wasAllocated(arr(%s))", od, od))
				} else {
					add("Decs."+path, fmt.Sprintf("%s == %s", od, nd))
				}
			}
		}
	}
	return out
}

func buildClone(p *Program, tier string) ([]*Unit, []UnitError) {
	key := pkgDst + ".Clone"
	var units []*Unit
	var errs []UnitError
	for _, nt := range p.nodeTypes(pkgDst) {
		nt := nt
		if !wantUnit("Clone/" + nt.Name) {
			continue
		}
		consulted := p.consultedPaths(pkgDecorator+".(*FileRestorer).restoreNode", nt)
		opts := caseOpts("n", nt, "dst")
		// cloneOf is defined, per node type, by the schema obligations below (least fixed point over the tree)
		opts.SkipEnsures = map[string]bool{"is_clone": true}
		opts.AtExit = func(ex *Exec, fr *frame, g string, st *State, res []Val) {
			if len(res) != 1 {
				ex.failf("Clone: no result")
			}
			env := ex.specEnv(fr, st, nil)
			env.vars["$out"] = Val{T: iRef(res[0].T), Typ: nt.Ptr}
			env.vars["$in"] = Val{T: iRef(fr.params["n"].T), Typ: nt.Ptr}
			env.old = fr.entry
			name := "Clone/" + nt.Name
			ex.obligeSpec(env, name+"#schema:result_type", "schema", g, fmt.Sprintf("typeof(result) == type(*dst.%s) && $out != nil && !wasAllocated($out)", nt.Name), map[string]Val{"result": res[0]})
			for _, c := range cloneLeafConds(p, nt.Named, "$out", "$in", "", false, "", consulted) {
				ex.obligeSpec(env, name+"#schema:"+c[0], "schema", g, c[1], nil)
			}
		}
		u, err := p.verifyFunc(key, opts)
		if err != nil {
			errs = append(errs, UnitError{"Clone/" + nt.Name, err.Error()})
			continue
		}
		units = append(units, u)
	}
	return units, errs
}

// obligeSpec parses and evaluates spec text in env and records it as an obligation.
func (ex *Exec) obligeSpec(env *SpecEnv, name, kind, g, text string, extra map[string]Val) {
	e, err := parseSpec(text)
	if err != nil {
		ex.failf("%s: %v", name, err)
	}
	if extra != nil {
		for k, v := range extra {
			env = env.bind(k, v)
		}
	}
	t, err := env.evalBool(e)
	if err != nil {
		ex.failf("%s: %v", name, err)
	}
	ex.oblige(name, kind, g, t, text, "")
}

func init() {
	register(&Property{
		ID:       "C06",
		Title:    "Clone is a complete, alias-free deep copy and the only legal way to reuse a node",
		Packages: []string{pkgDst, pkgDecorator},
		Build: func(p *Program, tier string) ([]*Unit, []UnitError) {
			us, es := buildClone(p, tier)
			us2, es2 := restoreUnitsOf(p, tier, false)
			return append(us, us2...), append(es, es2...)
		},
		Select:   func(n string) bool { return strings.Contains(n, "Clone") || reDup.MatchString(n) },
		Siblings: "C11 (maps), C12 (position space), C04 (tape) for the restoreNode units",
		Assumptions: []string{
			"cloneOf(out, n) is an uninterpreted relation introduced only by Clone's own postcondition; freshness of everything reachable from the result follows by induction on the tree",
			"trees are acyclic (partial correctness: termination of the recursion is not proved)",
		},
	})
}

// wantUnit: development filter (GOVC_FILTER=substring) — never set by the registered checks.
func wantUnit(name string) bool {
	f := os.Getenv("GOVC_FILTER")
	return f == "" || strings.Contains(name, f)
}

// consultedPaths: field paths the given function reads through its typed case variable `n` of
// type *T (FieldAddr chains rooted at that variable), e.g. "Type.Decs.Start". nil if unavailable.
func (p *Program) consultedPaths(fnKey string, nt nodeType) map[string]bool {
	fn := p.fns[fnKey]
	if fn == nil {
		return nil
	}
	out := map[string]bool{}
	want := typeKey(nt.Ptr)
	for _, b := range fn.Blocks {
		for _, in := range b.Instrs {
			fa, ok := in.(*ssa.FieldAddr)
			if !ok {
				continue
			}
			txt, ok := addrText(fa)
			if !ok || !strings.HasPrefix(txt, "n.") {
				continue
			}
			// root must be the typed case variable
			root := ssa.Value(fa)
			for {
				switch x := root.(type) {
				case *ssa.FieldAddr:
					root = x.X
					continue
				case *ssa.UnOp:
					if a, isA := x.X.(*ssa.Alloc); isA {
						root = a
					} else {
						root = x.X
						continue
					}
				}
				break
			}
			a, isA := root.(*ssa.Alloc)
			if !isA || typeKey(deref(a.Type())) != want {
				continue
			}
			path := strings.TrimPrefix(txt, "n.")
			// every prefix is consulted as well
			parts := strings.Split(path, ".")
			for i := 1; i <= len(parts); i++ {
				out[strings.Join(parts[:i], ".")] = true
			}
		}
	}
	return out
}

// ---- restoreNode per case ----

func buildRestoreNode(p *Program, tier string, which string) ([]*Unit, []UnitError) {
	key := fr("restoreNode")
	var units []*Unit
	var errs []UnitError
	for _, nt := range p.nodeTypes(pkgDst) {
		nt := nt
		name := "restoreNode/" + nt.Name
		if !wantUnit(name) {
			continue
		}
		opts := restoreNodeOpts(p, nt)
		u, err := p.verifyFunc(key, opts)
		if err != nil {
			errs = append(errs, UnitError{name, err.Error()})
			continue
		}
		units = append(units, u)
	}
	return units, errs
}

// ---- label classes of the shared restorer units ----

var (
	rePosSpace = regexp.MustCompile(`#(ensures|join\d+\.\d+|loop\d+-(entry|preserve(\.\d+)?)):(foreach_)?(inv|cursor_monotone|lines_prefix|comments_prefix|lines_array_old_or_fresh|count|backing|old_rows|frame_new)$|#call:.*:(inv|at_cursor)@\d+$|#pos:|#comments:|#frame|#loop\d+-(entry|preserve(\.\d+)?):(count|length|cursor|offsets|prefix|at_newline|inv|sorted|pos|last|rest|lines_prefix|comments_prefix|cursor_monotone|comments|lines|untouched|index|lines_array_old_or_fresh)$|#ensures:(lines_array_old_or_fresh|added|cursor|offsets|prefix|at_newline|at_newline_kept|sorted|last|single_line_is_noop|covers_cursor|covers_lines|covers_comments|positive_or_empty|ends_at_newline|empty_is_noop|registered_at_slash)$`)
	reMaps     = regexp.MustCompile(`#(ensures|join\d+\.\d+|loop\d+-(entry|preserve(\.\d+)?)):(foreach_)?(maps|mapped|mapped_back|mapped_self|ast_map_grows|dst_map_grows|fresh_unless_duplicate|fresh_unless_known|result_not_nil)$|#call:.*:maps@\d+$|#maps:created_node_mapped`)
	reFields   = regexp.MustCompile(`#fields:|#ensures:plain_ident$|#loop\d+-(entry|preserve(\.\d+)?):foreach_(elems|length)$`)
	reTape     = regexp.MustCompile(`#tape:`)
	reSpaces   = regexp.MustCompile(`#tape:(qualified\.)?(before_first|after_last|two_spaces|no_decorations)$`)
	// a comment decoration becomes one ast.Comment in one group that is registered once, when it is created
	reCommentsOnce = regexp.MustCompile(`(applyDecorations|addCommentField)#(comments:|ensures:(registered_at_slash|comments_prefix|empty_is_noop)$|call:.*:at_cursor@\d+$)`)
	reObjNodeMaps  = regexp.MustCompile(`(decorateObject|decorateScope|restoreObject|restoreScope)#(ensures|loop\d+-(entry|preserve(\.\d+)?)):(maps|dst_map_grows|ast_map_grows|decl_node|data_node)$`)
	// loop bookkeeping of the decorator's append-each loops and the call preconditions on the way in: nobody else's, so C11 discharges them
	reDecorateAux  = regexp.MustCompile(`decorateNode/\w+#loop\d+-(entry|preserve(\.\d+)?):(foreach_(backing|count|old_rows)|frame_new)$|decorateNode/\w+#call:.*:not_yet_decorated@\d+$|\(\*decorator\.Decorator\)\.(DecorateNode|DecorateFile|ParseFile|Parse)#(call:.*:(maps|objects)@\d+|loop\d+-(entry|preserve(\.\d+)?):maps)$`)
	reRestoreEntry = regexp.MustCompile(`(\.|\))(Fprint|Print|RestoreFile)#(call:.*(RestoreFile|Fprint):(restorer|maps|objects|ready)@\d+|ensures:(ready|maps_kept))$`)
	reDup          = regexp.MustCompile(`#ensures:duplicates_rejected$|#maps:registered_before_recursion|#maps:allow_duplicate_handed_on`)
)

func restoreUnitsOf(p *Program, tier string, helpers bool) ([]*Unit, []UnitError) {
	var us []*Unit
	var es []UnitError
	if helpers {
		us, es = buildFuncUnits(p, []string{fr("applySpace"), fr("applyDecorations"), fr("addCommentField"), fr("applyLiteral"), fr("fileSize"), fr("updateImports")},
			map[string]*UnitOpts{fr("applyDecorations"): commentsRegistrationOpts(), fr("addCommentField"): commentsRegistrationOpts()})
	}
	us2, es2 := buildRestoreNode(p, tier, "")
	return append(us, us2...), append(es, es2...)
}

func init() {
	register(&Property{
		ID:       "C12",
		Title:    "Restored ASTs carry a coherent position space",
		Packages: []string{pkgDecorator},
		Build: func(p *Program, tier string) ([]*Unit, []UnitError) {
			us, es := restoreUnitsOf(p, tier, true)
			us2, es2 := buildRestoreFile(p, tier)
			// the public wrappers: they hand RestoreFile a restorer that meets its precondition
			us3, es3 := buildFuncUnits(p, []string{pkgDecorator + ".(*Restorer).RestoreFile", pkgDecorator + ".(*Restorer).Fprint", fr("Fprint"), pkgDecorator + ".(*Restorer).Print", fr("Print"), pkgDecorator + ".RestoreFile", pkgDecorator + ".Fprint", pkgDecorator + ".Print"}, nil)
			return append(append(us, us2...), us3...), append(append(es, es2...), es3...)
		},
		Select: func(n string) bool {
			return rePosSpace.MatchString(n) || strings.Contains(n, "RestoreFile") || reRestoreEntry.MatchString(n) || strings.HasSuffix(n, "#tape:position_taken_at_its_token")
		},
		Siblings: "C03 (fields), C04 (tape), C06 (duplicates), C11 (maps)",
		Assumptions: []string{
			"token.FileSet.Base() >= 1 and AddFile at Base() never overlaps an earlier file (assumed contract of go/token)",
			"Bad nodes have Length >= 0 (data invariant of dst trees; the decorator stores To-From)",
			"positions handed out are cursor values between base and the final cursor; fileSize() covers the final cursor, every line offset and every comment end",
		},
		NotDecided: []string{"that the rank order of positions equals that of a fresh parse of the printed text (go/printer)", "Extras == true: nodes restored after AddFile (known finding F9)"},
	})
	register(&Property{
		ID:       "C11",
		Title:    "Node maps are exact inverse correspondences between ast and dst",
		Packages: []string{pkgDecorator},
		Build: func(p *Program, tier string) ([]*Unit, []UnitError) {
			us, es := restoreUnitsOf(p, tier, false)
			us2, es2 := buildDecorateNode(p, tier)
			us3, es3 := buildFuncUnits(p, []string{fd("decorateSelectorExpr"), pkgDecorator + ".mergeDecorations", fd("decorateObject"), fd("decorateScope"), fr("restoreObject"), fr("restoreScope"),
				pkgDecorator + ".(*Decorator).DecorateNode", pkgDecorator + ".(*Decorator).DecorateFile", pkgDecorator + ".(*Decorator).ParseFile", pkgDecorator + ".(*Decorator).Parse"}, nil)
			us4, es4 := buildRestoreFile(p, tier)
			us3, es3 = append(us3, us4...), append(es3, es4...)
			return append(append(us, us2...), us3...), append(append(es, es2...), es3...)
		},
		Select: func(n string) bool {
			return reMaps.MatchString(n) || strings.HasPrefix(n, "RestoreFile#maps:") || strings.Contains(n, "#fields:") || strings.Contains(n, "#maps:registered_before_recursion") ||
				strings.Contains(n, "decorateSelectorExpr#") || strings.Contains(n, "mergeDecorations#") ||
				// the object/scope conversions reach the node maps through decorateNode: entries only grow, Decl/Data are map counterparts
				reObjNodeMaps.MatchString(n) || reDecorateAux.MatchString(n)
		},
		Siblings: "C12 (position space), C04 (tape), C06 (duplicates)",
		Assumptions: []string{
			"the inverse laws are carried per entry: each case registers its own pair and no call changes an entry that existed when it started; the global statement follows by induction over the tree (not machine-checked as one formula)",
			"allowDuplicate == true (the Extras pass) may overwrite entries; claims are for the main pass",
		},
	})
	register(&Property{
		ID:       "C03",
		Title:    "Tokens and comments survive decorate+print for any parseable source",
		Packages: []string{pkgDecorator},
		Build: func(p *Program, tier string) ([]*Unit, []UnitError) {
			us, es := restoreUnitsOf(p, tier, true)
			us2, es2 := buildDecorateNode(p, tier)
			us3, es3 := buildPrintOutput(p, tier)
			us4, es4 := buildAttachment(p, tier)
			us3, es3 = append(us3, us4...), append(es3, es4...)
			return append(append(us, us2...), us3...), append(append(es, es2...), es3...)
		},
		Select: func(n string) bool {
			return reFields.MatchString(n) || strings.HasSuffix(n, "#tape:children_once") || reCommentsOnce.MatchString(n) || strings.Contains(n, "#output:") || isAttachObligation(n)
		},
		Siblings: "C11 (maps), C12 (position space), C04 (tape)",
		Assumptions: []string{
			"partial: decides the slip the statement names (a missing child or token-carrying field in a generated case) in both directions: decorateNode carries every child, list, token and string field of ast.T to dst.T and restoreNode carries it back; comment attachment (fragment/link) and exactly-once comment emission are not under contract",
			"go/printer prints exactly the tokens of the ast it is given (assumed)",
			"File.Imports and File.Unresolved are cross references and deliberately not restored; FuncType.Func inside a FuncDecl is not mirrored (a declaration always has the keyword)",
		},
		NotDecided: []string{"that link() attaches every source comment to some decoration", "token and comment sequence of the printed text (go/printer, go/scanner)"},
	})
	register(&Property{
		ID:       "C04",
		Title:    "Every decoration is rendered exactly once at its documented attachment point",
		Packages: []string{pkgDecorator, pkgDstutil},
		Build: func(p *Program, tier string) ([]*Unit, []UnitError) {
			us, es := restoreUnitsOf(p, tier, true)
			us2, es2 := buildAccessors(p, tier)
			return append(us, us2...), append(es, es2...)
		},
		Select: func(n string) bool {
			return reTape.MatchString(n) || strings.Contains(n, "#accessor:") || reCommentsOnce.MatchString(n) || strings.Contains(n, "#iface:Decorations")
		},
		Siblings: "C12 (position space), C11 (maps), C03 (fields)",
	})
}
