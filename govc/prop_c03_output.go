package main

// C03, last hop: the text is produced by go/format.Node from the restored file and its file set, and
// nothing else is handed the writer. go/format (parse-print with the gofmt printer mode, number
// literals normalised, imports sorted) is the assumed external that turns the restored ast into
// gofmt's token sequence; a print through any other route is outside that assumption.

import (
	"fmt"
	"strings"
)

func buildPrintOutput(p *Program, tier string) ([]*Unit, []UnitError) {
	var units []*Unit
	var errs []UnitError
	type entry struct {
		key, recv, fset string
	}
	for _, e := range []entry{
		{fr("Fprint"), "r", "r.Fset"},
		{pkgDecorator + ".(*Restorer).Fprint", "pr", "pr.Fset"},
		{pkgDecorator + ".Fprint", "", ""},
	} {
		e := e
		fn := p.fns[e.key]
		name := shortKey(e.key)
		if fn != nil {
			name = shortFn(fn)
		}
		if !wantUnit(name) {
			continue
		}
		opts := &UnitOpts{Trace: true}
		opts.AtExit = func(ex *Exec, frm *frame, g string, st *State, res []Val) {
			w, okw := frm.params["w"]
			var restore, format []*Event
			for i := range ex.trace {
				ev := &ex.trace[i]
				if ev.Kind != "call" {
					continue
				}
				if ev.Depth == 0 && strings.HasSuffix(ev.Callee, "RestoreFile") {
					restore = append(restore, ev)
				}
				if strings.HasSuffix(ev.Callee, "go/format.Node") {
					format = append(format, ev)
				}
			}
			structural := func(label string, ok bool, what, where string) {
				goal := "true"
				if !ok {
					goal = "false"
				}
				o := ex.oblige(name+"#output:"+label, "frame", "true", goal, what, where)
				o.Guard = "true"
			}
			okShape := okw && len(restore) == 1 && len(format) == 1 && format[0].Depth == 0 && restore[0].Res != nil && len(format[0].Args) == 3
			structural("one_restore_then_one_go_format_call", okShape,
				fmt.Sprintf("%d RestoreFile calls and %d go/format.Node calls on the way to the output (one of each expected, in this function)", len(restore), len(format)), "")
			if okShape {
				fe, re := format[0], restore[0]
				env := &SpecEnv{ex: ex, vars: map[string]Val{}, cur: fe.St, old: frm.entry, pkg: frm.fn.Pkg.Pkg}
				if e.recv != "" {
					env.vars[e.recv] = frm.params[e.recv]
				}
				env.vars["$w"] = fe.Args[0]
				env.vars["w"] = w
				env.vars["$fset"] = fe.Args[1]
				env.vars["$node"] = fe.Args[2]
				rt := re.Res.Tuple
				if len(rt) == 0 {
					rt = []Val{*re.Res}
				}
				// the restored file is the result before the error
				env.vars["$af"] = rt[len(rt)-2]
				spec := "$w == w && typeof($node) == type(*ast.File) && cast($node, type(*ast.File)) == $af"
				if e.fset != "" {
					spec += " && $fset == " + e.fset
				} else if len(rt) == 3 {
					env.vars["$rfset"] = rt[0]
					spec += " && $fset == $rfset"
				}
				ex.obligeSpec(env, name+"#output:go_format_prints_the_restored_file_to_the_writer", "schema", fe.Guard, spec, nil)
			}
			// nothing else is handed the writer
			others := 0
			where := ""
			if okw {
				for i := range ex.trace {
					ev := &ex.trace[i]
					if ev.Kind != "call" || strings.HasSuffix(ev.Callee, "go/format.Node") {
						continue
					}
					for _, a := range ev.Args {
						if a.T != "" && a.T == w.T {
							others++
							where = ex.pos(ev.Instr.Pos())
						}
					}
				}
			}
			structural("nothing_else_receives_the_writer", okw && others == 0, fmt.Sprintf("%d other calls are handed the writer", others), where)
		}
		u, err := p.verifyFunc(e.key, opts)
		if err != nil {
			errs = append(errs, UnitError{name, err.Error()})
			continue
		}
		units = append(units, u)
	}
	return units, errs
}
