package main

// C04, accessor clause: dstutil.decorations (per case) and the Decorations() methods agree with the
// node's own decoration struct — the same points, in the order they are rendered (struct order,
// which the render tape is checked against), under the field's name, with the field's content.

import (
	"fmt"
	"golang.org/x/tools/go/ssa"
	"strings"
)

func buildAccessors(p *Program, tier string) ([]*Unit, []UnitError) {
	var units []*Unit
	var errs []UnitError
	key := pkgDstutil + ".decorations"
	for _, nt := range p.nodeTypes(pkgDst) {
		nt := nt
		name := "decorations/" + nt.Name
		if !wantUnit(name) {
			continue
		}
		opts := caseOpts("n", nt, "dst")
		opts.AtExit = func(ex *Exec, frm *frame, g string, st *State, res []Val) {
			if len(res) != 3 {
				return
			}
			nv := frm.params["n"]
			env := &SpecEnv{ex: ex, vars: map[string]Val{}, cur: st, old: frm.entry, pkg: frm.fn.Pkg.Pkg}
			env.vars["before"], env.vars["after"], env.vars["points"] = res[0], res[1], res[2]
			env.vars["$in"] = Val{T: iRef(nv.T), Typ: nt.Ptr}
			decs := decorationFields(nt.Named)
			if len(decs) == 0 {
				ex.obligeSpec(env, name+"#accessor:no_points", "schema", g, "len(points) == 0 && before == 0 && after == 0", nil)
				return
			}
			ex.obligeSpec(env, name+"#accessor:before", "schema", g, "before == $in.Decs.Before", nil)
			ex.obligeSpec(env, name+"#accessor:after", "schema", g, "after == $in.Decs.After", nil)
			ex.obligeSpec(env, name+"#accessor:count", "schema", g, fmt.Sprintf("len(points) == %d", len(decs)), nil)
			for i, f := range decs {
				ex.obligeSpec(env, fmt.Sprintf("%s#accessor:point:%s.name", name, f), "schema", g, fmt.Sprintf("len(points) > %d ==> points[%d].Name == %q", i, i, f), nil)
				ex.obligeSpec(env, fmt.Sprintf("%s#accessor:point:%s.content", name, f), "schema", g,
					fmt.Sprintf("len(points) > %d ==> len(points[%d].Decs) == len($in.Decs.%s) && (forall j int :: 0 <= j && j < len($in.Decs.%s) ==> points[%d].Decs[j] == $in.Decs.%s[j])", i, i, f, f, i, f), nil)
			}
		}
		u, err := p.verifyFunc(key, opts)
		if err != nil {
			errs = append(errs, UnitError{name, err.Error()})
			continue
		}
		units = append(units, u)
	}
	// the Decorations() methods
	for _, nt := range p.nodeTypes(pkgDst) {
		nt := nt
		name := "Decorations/" + nt.Name
		if !wantUnit(name) {
			continue
		}
		mkey := fmt.Sprintf("%s.(*%s).Decorations", pkgDst, nt.Name)
		if p.fns[mkey] == nil {
			errs = append(errs, UnitError{name, "method not found: " + mkey})
			continue
		}
		hasDecs := len(decorationFields(nt.Named)) > 0
		opts := &UnitOpts{NameSuffix: ""}
		opts.AtExit = func(ex *Exec, frm *frame, g string, st *State, res []Val) {
			if len(res) != 1 {
				return
			}
			env := &SpecEnv{ex: ex, vars: map[string]Val{}, cur: st, old: frm.entry, pkg: frm.fn.Pkg.Pkg}
			env.vars["n"] = frm.params["n"]
			env.vars["result"] = res[0]
			if !hasDecs {
				ex.obligeSpec(env, name+"#accessor:none", "schema", g, "result == nil", nil)
				return
			}
			// the result is the address of the node's own n.Decs.NodeDecs (an interior pointer: the
			// engine keeps it as a field location, so this is decided on the location itself)
			r := res[0]
			ok := r.Loc != nil && r.Loc.Kind == LField && r.Loc.Base == frm.params["n"].T && strings.Join(r.Loc.Path, ".") == "Decs.NodeDecs"
			what := "result is &n.Decs.NodeDecs"
			if !ok {
				if r.Loc != nil {
					what += fmt.Sprintf("; found base %s path %s", r.Loc.Base, strings.Join(r.Loc.Path, "."))
				} else {
					what += "; found a value that is not a field address of n: " + r.T
				}
			}
			goal := "true"
			if !ok {
				goal = "false"
			}
			o := ex.oblige(name+"#accessor:own_storage", "frame", "true", goal, what, "")
			o.Guard = "true"
		}
		u, err := p.verifyFunc(mkey, opts)
		if err != nil {
			errs = append(errs, UnitError{name, err.Error()})
			continue
		}
		units = append(units, u)
	}
	_ = strings.Join
	// the interface contract assumed at dynamic calls of Decorations() (modifies nothing) holds for every implementer:
	// the method bodies contain no store, no map update and no call
	ex := p.newExec("decorations-methods")
	n, bad := 0, ""
	for _, nt := range p.nodeTypes(pkgDst) {
		fn := p.fns[fmt.Sprintf("%s.(*%s).Decorations", pkgDst, nt.Name)]
		if fn == nil {
			bad += " " + nt.Name + "(missing)"
			continue
		}
		ex.unit.addFunc(fn.String())
		n++
		if !readsOnly(fn) {
			bad += " " + nt.Name
		}
	}
	goal := "true"
	if bad != "" || n == 0 {
		goal = "false"
	}
	o := ex.oblige("dst#iface:Decorations_methods_only_read", "frame", "true", goal, fmt.Sprintf("%d Decorations methods examined; not read-only:%s", n, bad), "")
	o.Guard = "true"
	units = append(units, ex.unit)
	return units, errs
}

// readsOnly: the function stores only to its own non-escaping locals, updates no map and calls nothing.
func readsOnly(fn *ssa.Function) bool {
	for _, b := range fn.Blocks {
		for _, in := range b.Instrs {
			switch x := in.(type) {
			case *ssa.Store:
				if a, ok := x.Addr.(*ssa.Alloc); !ok || a.Heap {
					return false
				}
			case *ssa.MapUpdate, *ssa.Go, *ssa.Defer, *ssa.Send:
				return false
			case *ssa.Call:
				if bi, ok := x.Call.Value.(*ssa.Builtin); ok && (bi.Name() == "ssa:deferstack" || bi.Name() == "len" || bi.Name() == "cap") {
					continue
				}
				return false
			}
		}
	}
	return true
}
