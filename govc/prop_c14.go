package main

// C14: Apply follows astutil semantics for traversal and cursor edits.

import (
	"fmt"
	"go/types"
	"strings"

	"golang.org/x/tools/go/ssa"
)

const pkgAstutil = "golang.org/x/tools/go/ast/astutil"

func du(name string) string { return pkgDstutil + "." + name }

// cloneContractFor: the dstutil contract of a Cursor method, re-keyed for astutil (same text; type
// names are resolved with dst -> ast).
func cloneContractFor(p *Program, method string) string {
	src := p.db.Funcs[pkgDstutil+".(*Cursor)."+method]
	key := pkgAstutil + ".(*Cursor)." + method
	if src == nil {
		return key
	}
	if _, ok := p.db.Funcs[key]; !ok {
		c := *src
		c.Key = key
		c.Pkg = pkgAstutil
		p.db.Funcs[key] = &c
	}
	return key
}

func buildC14(p *Program, tier string) ([]*Unit, []UnitError) {
	var units []*Unit
	var errs []UnitError
	add := func(key, name string, opts *UnitOpts) {
		if !wantUnit(name) {
			return
		}
		u, err := p.verifyFunc(key, opts)
		if err != nil {
			errs = append(errs, UnitError{name, err.Error()})
			return
		}
		units = append(units, u)
	}
	edits := []string{"Delete", "InsertAfter", "InsertBefore", "Replace"}
	for _, m := range edits {
		key := pkgDstutil + ".(*Cursor)." + m
		add(key, "(*dstutil.Cursor)."+m, nil)
		if m != "Replace" {
			// the first edit made while visiting an element: step >= 1 as applyList sets it
			add(key, "(*dstutil.Cursor)."+m+"/first-edit", &UnitOpts{NameSuffix: "/first-edit", ExtraRequires: []string{"c.iter.step >= 1"}})
		}
	}
	for _, m := range []string{"Index", "Node", "Parent", "Name"} {
		add(pkgDstutil+".(*Cursor)."+m, "(*dstutil.Cursor)."+m, nil)
	}
	// the same contracts on golang.org/x/tools/go/ast/astutil (the version go.mod pins)
	if _, ok := p.pkgs[pkgAstutil]; ok {
		for _, m := range edits {
			key := cloneContractFor(p, m)
			add(key, "(*astutil.Cursor)."+m, &UnitOpts{TypeRename: [2]string{"dst.", "ast."}})
			if m != "Replace" {
				add(key, "(*astutil.Cursor)."+m+"/first-edit", &UnitOpts{NameSuffix: "/first-edit", ExtraRequires: []string{"c.iter.step >= 1"}, TypeRename: [2]string{"dst.", "ast."}})
			}
		}
	} else {
		errs = append(errs, UnitError{"(*astutil.Cursor)", "package " + pkgAstutil + " not loaded"})
	}
	// applyList: hands out the element at the iterator's index and advances by the step the callbacks left
	lopts := &UnitOpts{Trace: true}
	lopts.AtExit = func(ex *Exec, frm *frame, g string, st *State, res []Val) {
		name := "applyList"
		n := 0
		for i := range ex.trace {
			ev := &ex.trace[i]
			if ev.Kind != "call" || ev.Depth != 0 || ev.Callee != du("(*application).apply") {
				continue
			}
			n++
			env := &SpecEnv{ex: ex, vars: map[string]Val{}, cur: ev.St, old: frm.entry, pkg: frm.fn.Pkg.Pkg}
			env.vars["a"], env.vars["parent"], env.vars["name"] = frm.params["a"], frm.params["parent"], frm.params["name"]
			env.vars["$x"] = ev.Args[4]
			env.vars["$it"] = ev.Args[3]
			env.vars["$p"], env.vars["$n"] = ev.Args[1], ev.Args[2]
			ex.obligeSpec(env, fmt.Sprintf("%s#visit:hands_out_element_at_index@%d", name, n), "schema", ev.Guard,
				"$p == parent && $n == name && a.iter.step == 1 && 0 <= a.iter.index && a.iter.index < rlen(parent, name) && $x == rat(parent, name, a.iter.index)", nil)
		}
		o := ex.oblige(name+"#visit:one_apply_per_iteration", "frame", "true", map[bool]string{true: "true", false: "false"}[n == 1], fmt.Sprintf("%d apply call(s) in the loop body", n), "")
		o.Guard = "true"
	}
	add(du("(*application).applyList"), "applyList", lopts)
	// Apply itself: the root as it stands at the end, on the normal exit and after the recovered abort
	add(du("Apply"), "Apply", nil)
	if _, ok := p.pkgs[pkgAstutil]; ok {
		if src := p.db.Funcs[du("Apply")]; src != nil {
			key := pkgAstutil + ".Apply"
			for _, pr := range [][2]string{{du("Apply"), key}, {du("(*application).apply"), pkgAstutil + ".(*application).apply"}} {
				if sc := p.db.Funcs[pr[0]]; sc != nil {
					if _, have := p.db.Funcs[pr[1]]; !have {
						c := *sc
						c.Key, c.Pkg = pr[1], pkgAstutil
						p.db.Funcs[pr[1]] = &c
					}
				}
			}
			_ = src
			add(key, "astutil.Apply", &UnitOpts{TypeRename: [2]string{"dst.", "ast."}})
		}
	}
	// apply, per node type: children in the order of dst.Walk, names equal to the fields, pre/post protocol
	us, es := buildApplyCases(p, tier)
	units, errs = append(units, us...), append(errs, es...)
	return units, errs
}

type applyEv struct {
	K     string // Pre, Post, Child, List
	Field string // source field (n.F -> F)
	Name  string // name string passed
}

func (e applyEv) String() string {
	if e.K == "Child" || e.K == "List" {
		return e.K + "(" + e.Field + " as \"" + e.Name + "\")"
	}
	return e.K
}

func buildApplyCases(p *Program, tier string) ([]*Unit, []UnitError) {
	var units []*Unit
	var errs []UnitError
	key := du("(*application).apply")
	nodeIface := nodeIfaceOf(p, pkgDst)
	dstWalk := pkgDst + ".Walk"
	dstVisit := funcKey(pkgDst, false, "Visitor", "Visit")
	for _, nt := range p.nodeTypes(pkgDst) {
		nt := nt
		name := "apply/" + nt.Name
		if !wantUnit(name) {
			continue
		}
		// the Walk sequence of the same type (C13's oracle), through the same extractor
		var walk []walkEv
		wopts := caseOpts("node", nt, "dst")
		wopts.Trace = true
		wopts.AtExit = func(ex *Exec, frm *frame, g string, st *State, res []Val) {
			walk = walkTape(ex, frm.fn, dstWalk, dstVisit)
		}
		if _, err := p.verifyFunc(dstWalk, wopts); err != nil {
			errs = append(errs, UnitError{name, "dst.Walk reference: " + err.Error()})
			continue
		}
		opts := caseOpts("n", nt, "dst")
		opts.Trace = true
		opts.SkipEnsures = map[string]bool{"unvisited_kept": true}
		opts.AtExit = func(ex *Exec, frm *frame, g string, st *State, res []Val) {
			var tape []applyEv
			for i := range ex.trace {
				ev := &ex.trace[i]
				if ev.Kind != "call" || ev.Depth != 0 {
					continue
				}
				call, ok := ev.Instr.(*ssa.Call)
				if !ok {
					continue
				}
				switch {
				case ev.Callee == key:
					a := call.Call.Args
					src := argText(a[4])
					tape = append(tape, applyEv{K: "Child", Field: src[strings.LastIndex(src, ".")+1:], Name: unq(argText(a[2]))})
				case ev.Callee == du("(*application).applyList"):
					a := call.Call.Args
					tape = append(tape, applyEv{K: "List", Field: unq(argText(a[2])), Name: unq(argText(a[2]))})
				case strings.HasSuffix(ev.Callee, ".callback.pre"), strings.HasSuffix(ev.Callee, ".callback.post"):
					k := "Pre"
					if strings.HasSuffix(ev.Callee, ".callback.post") {
						k = "Post"
					}
					tape = append(tape, applyEv{K: k})
					// Parent, Name, Index and Node locate the current node whenever a callback runs
					env := &SpecEnv{ex: ex, vars: map[string]Val{}, cur: ev.St, old: frm.entry, pkg: frm.fn.Pkg.Pkg}
					for _, pn := range []string{"a", "parent", "name", "iter", "n"} {
						env.vars[pn] = frm.params[pn]
					}
					env.vars["$c"] = ev.Args[0]
					ex.obligeSpec(env, fmt.Sprintf("%s#cursor:locates_current_node_at_%s", name, strings.ToLower(k)), "schema", ev.Guard,
						"a.cursor.parent == parent && a.cursor.name == name && a.cursor.iter == iter && a.cursor.node == n", nil)
				}
			}
			var seq []string
			for _, e := range tape {
				seq = append(seq, e.String())
			}
			what := "apply: " + strings.Join(seq, " ") + " | dst.Walk: " + seqString(walk)
			check := func(label string, ok bool) {
				goal := "true"
				if !ok {
					goal = "false"
				}
				o := ex.oblige(name+"#traverse:"+label, "frame", "true", goal, what, "")
				o.Guard = "true"
			}
			// pre first, post last, children in between
			proto := len(tape) >= 2 && tape[0].K == "Pre" && tape[len(tape)-1].K == "Post"
			for i := 1; proto && i < len(tape)-1; i++ {
				if tape[i].K == "Pre" || tape[i].K == "Post" {
					proto = false
				}
			}
			check("pre_children_post", proto)
			// the name string names the field whose value is passed
			namesOK := true
			for _, e := range tape {
				if e.K == "Child" && e.Name != e.Field && nt.Name != "Package" { // a package's files are named by their map key
					namesOK = false
				}
			}
			check("name_is_the_field_passed", namesOK)
			// same children, same order as Walk (lists as lists); Package files are handled separately
			if nt.Name != "Package" {
				var as, ws []string
				for _, e := range tape {
					if e.K == "Child" || e.K == "List" {
						as = append(as, e.K+":"+e.Field)
					}
				}
				for _, e := range walk {
					if e.K != "Visit" {
						ws = append(ws, e.K+":"+e.Field)
					}
				}
				check("children_as_walk", strings.Join(as, ",") == strings.Join(ws, ","))
				// list fields go through applyList, node fields through apply
				stt := nt.Named.Underlying().(*types.Struct)
				kindOK := true
				for _, e := range tape {
					if e.K != "Child" && e.K != "List" {
						continue
					}
					ft, _ := fieldType(nt.Named, e.Field)
					if ft == nil {
						kindOK = false
						continue
					}
					_ = stt
					isList := false
					if _, ok := ft.Underlying().(*types.Slice); ok {
						isList = true
					}
					if e.K == "List" && !isList || e.K == "Child" && isList {
						kindOK = false
					}
				}
				_ = nodeIface
				check("lists_through_applyList", kindOK)
			}
		}
		u, err := p.verifyFunc(key, opts)
		if err != nil {
			errs = append(errs, UnitError{name, err.Error()})
			continue
		}
		units = append(units, u)
	}

	// a typed nil pointer (an absent optional child of pointer type: FuncDecl.Body, Field.Tag, ...) is
	// converted to an untyped nil before the cursor is set: callbacks see Node() == nil, as with astutil
	if wantUnit("apply/typed-nil") {
		topts := &UnitOpts{NameSuffix: "/typed-nil", Trace: true, ExtraRequires: []string{"typeof(n) != 0 && ref(n) == 0"}, SkipEnsures: map[string]bool{"unvisited_kept": true}}
		topts.AtExit = func(ex *Exec, frm *frame, g string, st *State, res []Val) {
			n := 0
			for i := range ex.trace {
				ev := &ex.trace[i]
				if ev.Kind != "call" || ev.Depth != 0 {
					continue
				}
				if !strings.HasSuffix(ev.Callee, ".callback.pre") && !strings.HasSuffix(ev.Callee, ".callback.post") {
					continue
				}
				n++
				env := &SpecEnv{ex: ex, vars: map[string]Val{}, cur: ev.St, old: frm.entry, pkg: frm.fn.Pkg.Pkg}
				env.vars["a"] = frm.params["a"]
				ex.obligeSpec(env, fmt.Sprintf("apply/typed-nil#cursor:node_is_untyped_nil@%d", n), "schema", ev.Guard, "a.cursor.node == nil", nil)
			}
			o := ex.oblige("apply/typed-nil#cursor:callbacks_seen", "frame", "true", map[bool]string{true: "true", false: "false"}[n >= 1], fmt.Sprintf("%d callback call(s) on the typed-nil path", n), "")
			o.Guard = "true"
		}
		u, err := p.verifyFunc(key, topts)
		if err != nil {
			errs = append(errs, UnitError{"apply/typed-nil", err.Error()})
		} else {
			units = append(units, u)
		}
	}

	return units, errs
}

func init() {
	register(&Property{
		ID:       "C14",
		Title:    "Apply follows astutil semantics for traversal and cursor edits",
		Packages: []string{pkgDstutil, pkgDst},
		Extra:    []string{pkgAstutil},
		Build:    buildC14,
		Emb:      []string{"dstutil.iterator", "dstutil.Cursor"},
		Assumptions: []string{
			"reflect handle model (DESIGN.md Appendix B) for FieldByName/Index/Slice/Copy/Set/SetLen/Append/Zero",
			"callbacks touch the traversed list only through Cursor methods (assumed contract of apply: the unvisited suffix stays in place)",
			"'exactly as astutil': the same functional contracts are discharged on golang.org/x/tools/go/ast/astutil v0.1.12's Cursor methods; a contract that fixes the final list and iterator state and is met by both makes them extensionally equal on that state, for single operations and hence for sequences",
			"dst calls pre/post with a nil node for an absent TypeParams where astutil skips it: outside the statement's scope (cursor edits)",
		},
	})
}
