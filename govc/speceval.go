package main

// Evaluation of contract expressions to SMT terms over a (current, old) pair of symbolic states.

import (
	"fmt"
	"go/constant"
	"go/types"
	"sort"
	"strings"
)

type SpecEnv struct {
	ex    *Exec
	vars  map[string]Val
	cur   *State
	old   *State
	entry *State // state at loop entry, for entry(e)
	pkg   *types.Package
	depth int
}

type specErr struct{ msg string }

func (env *SpecEnv) fail(e *SExpr, format string, args ...interface{}) {
	panic(specErr{fmt.Sprintf(format, args...) + " in `" + e.String() + "`"})
}

func (env *SpecEnv) with(cur *State) *SpecEnv {
	n := *env
	n.cur = cur
	return &n
}

func (env *SpecEnv) bind(name string, v Val) *SpecEnv {
	n := *env
	n.vars = map[string]Val{}
	for k, x := range env.vars {
		n.vars[k] = x
	}
	n.vars[name] = v
	return &n
}

var (
	tInt    = types.Typ[types.Int]
	tBool   = types.Typ[types.Bool]
	tString = types.Typ[types.String]
	tNil    = types.Typ[types.UntypedNil]
)

func boolVal(t string) Val { return Val{T: t, Typ: tBool} }
func intVal(t string) Val  { return Val{T: t, Typ: tInt} }

// evalBool evaluates a clause to a Bool term; errors are returned, not panicked.
func (env *SpecEnv) evalBool(e *SExpr) (t string, err error) {
	defer func() {
		if r := recover(); r != nil {
			if se, ok := r.(specErr); ok {
				err = fmt.Errorf("%s", se.msg)
				return
			}
			panic(r)
		}
	}()
	v := env.eval(e)
	if v.Typ == nil || sortOfSafe(v.Typ) != SBool {
		return "", fmt.Errorf("clause is not boolean: %s", e.String())
	}
	return v.T, nil
}

func sortOfSafe(t types.Type) string {
	if t == nil {
		return ""
	}
	if isStruct(t) {
		return "struct"
	}
	if _, ok := t.(*types.Tuple); ok {
		return "tuple"
	}
	return sortOf(t)
}

func (env *SpecEnv) u() *Universe { return env.ex.u }

func (env *SpecEnv) eval(e *SExpr) Val {
	u := env.u()
	switch e.Op {
	case "int":
		return intVal(intLit(e.Int))
	case "str":
		return Val{T: u.strLit(e.Str), Typ: tString}
	case "type":
		t := env.ex.resolveType(e.Name, env.pkg)
		if t == nil {
			env.fail(e, "unknown type %s", e.Name)
		}
		return intVal(intLit(int64(u.typeID(t))))
	case "id":
		return env.ident(e)
	case "un":
		x := env.eval(e.Args[0])
		switch e.Name {
		case "!":
			return boolVal(not(x.T))
		case "-":
			return Val{T: app("-", x.T), Typ: x.Typ}
		case "*":
			l := env.ex.locOf(x)
			if l == nil {
				env.fail(e, "cannot dereference")
			}
			return u.load(env.cur, l)
		}
	case "bin":
		return env.binary(e)
	case "cond":
		c := env.eval(e.Args[0])
		a := env.eval(e.Args[1])
		b := env.eval(e.Args[2])
		a, b = env.unifyNil(a, b)
		return Val{T: ite(c.T, a.T, b.T), Typ: a.Typ}
	case "sel":
		return env.selector(e)
	case "idx":
		x := env.eval(e.Args[0])
		i := env.eval(e.Args[1])
		switch xt := x.Typ.Underlying().(type) {
		case *types.Slice:
			l := &Loc{Kind: LElem, Base: sArr(x.T), Idx: cellIdx(sOff(x.T), i.T), Owner: elemKey(xt.Elem()), Typ: xt.Elem()}
			return u.load(env.cur, l)
		case *types.Map:
			return env.ex.mapGet(env.cur, x, env.box(i, xt.Key()))
		case *types.Array:
			return Val{T: sel(x.T, i.T), Typ: xt.Elem()}
		case *types.Basic:
			if xt.Info()&types.IsString != 0 {
				return intVal(app("strAt", x.T, i.T))
			}
		}
		env.fail(e, "cannot index %s", typeKey(x.Typ))
	case "slice":
		x := env.eval(e.Args[0])
		lo, hi := "0", ""
		if e.Args[1] != nil {
			lo = env.eval(e.Args[1]).T
		}
		if _, ok := x.Typ.Underlying().(*types.Slice); !ok {
			env.fail(e, "slice of non-slice")
		}
		if e.Args[2] != nil {
			hi = env.eval(e.Args[2]).T
		} else {
			hi = sLen(x.T)
		}
		return Val{T: mkS(sArr(x.T), plus(sOff(x.T), lo), minus(hi, lo), minus(sCap(x.T), lo)), Typ: x.Typ}
	case "forall", "exists":
		n := env
		var bs []string
		for _, b := range e.Binds {
			t := env.ex.resolveType(b.Type, env.pkg)
			if t == nil {
				env.fail(e, "unknown type %s", b.Type)
			}
			u.fresh++
			name := smtName(fmt.Sprintf("%s!q%d", b.Name, u.fresh))
			n = n.bind(b.Name, Val{T: name, Typ: t})
			bs = append(bs, "("+name+" "+sortOf(t)+")")
		}
		body := n.eval(e.Args[0])
		if len(e.Triggers) > 0 {
			var pats []string
			for _, tr := range e.Triggers {
				var ts []string
				for _, t := range tr {
					tv := n.eval(t)
					if strings.Contains(tv.T, "(ite ") {
						continue // not usable as a pattern
					}
					ts = append(ts, tv.T)
				}
				if len(ts) > 0 {
					pats = append(pats, ":pattern ("+strings.Join(ts, " ")+")")
				}
			}
			if len(pats) > 0 {
				return boolVal("(" + e.Op + " (" + strings.Join(bs, " ") + ") (! " + body.T + " " + strings.Join(pats, " ") + "))")
			}
		}
		return boolVal("(" + e.Op + " (" + strings.Join(bs, " ") + ") " + body.T + ")")
	case "call":
		return env.call(e)
	}
	env.fail(e, "unsupported expression kind %s", e.Op)
	return Val{}
}

func (env *SpecEnv) ident(e *SExpr) Val {
	u := env.u()
	if v, ok := env.vars[e.Name]; ok {
		return v
	}
	switch e.Name {
	case "true", "false":
		return boolVal(e.Name)
	case "nil":
		return Val{T: "nil!", Typ: tNil}
	}
	if g, ok := env.ex.db.Ghosts[e.Name]; ok {
		t := env.ex.resolveType(g.Type, env.ex.pkgByPath(g.Pkg))
		if t == nil {
			env.fail(e, "ghost %s: unknown type %s", g.Name, g.Type)
		}
		key := "G$" + g.Name
		u.keySort(key, sortOf(t))
		return Val{T: u.get(env.cur, key), Typ: t}
	}
	if env.pkg != nil {
		if obj := env.pkg.Scope().Lookup(e.Name); obj != nil {
			if c, ok := obj.(*types.Const); ok {
				return env.constVal(c)
			}
		}
	}
	env.fail(e, "unknown identifier %s", e.Name)
	return Val{}
}

func (env *SpecEnv) constVal(c *types.Const) Val {
	switch c.Val().Kind() {
	case constant.Int:
		n, _ := constant.Int64Val(c.Val())
		return Val{T: intLit(n), Typ: c.Type()}
	case constant.Bool:
		if constant.BoolVal(c.Val()) {
			return boolVal("true")
		}
		return boolVal("false")
	case constant.String:
		return Val{T: env.u().strLit(constant.StringVal(c.Val())), Typ: c.Type()}
	}
	panic(specErr{"unsupported constant " + c.Name()})
}

func (env *SpecEnv) selector(e *SExpr) Val {
	// package-qualified constant?
	if b := e.Args[0]; b.Op == "id" {
		if _, isVar := env.vars[b.Name]; !isVar {
			if p := env.ex.pkgByName(b.Name, env.pkg); p != nil {
				obj := p.Scope().Lookup(e.Name)
				if c, ok := obj.(*types.Const); ok {
					return env.constVal(c)
				}
				env.fail(e, "%s.%s is not a constant", b.Name, e.Name)
			}
		}
	}
	x := env.eval(e.Args[0])
	return env.fieldOf(e, x, e.Name)
}

// fieldOf selects a (possibly promoted) field from a pointer-to-struct or struct value.
func (env *SpecEnv) fieldOf(e *SExpr, x Val, name string) Val {
	u := env.u()
	t := x.Typ
	if t == nil {
		env.fail(e, "selector on untyped value")
	}
	var st types.Type
	isPtr := false
	if p := deref(t); p != nil && isStruct(p) {
		st = p
		isPtr = true
	} else if isStruct(t) {
		st = t
	} else {
		env.fail(e, "selector .%s on %s", name, typeKey(t))
	}
	obj, index, _ := types.LookupFieldOrMethod(st, true, nil, name)
	if obj == nil {
		// unexported field of another package: search manually
		index = findFieldPath(st, name)
		if index == nil {
			env.fail(e, "no field %s in %s", name, typeKey(st))
		}
	}
	cur := x
	curT := st
	for _, ix := range index {
		f := curT.Underlying().(*types.Struct).Field(ix)
		if isPtr {
			l := env.ex.locOf(cur)
			var fl *Loc
			if l.Kind == LField {
				fl = &Loc{Kind: LField, Base: l.Base, Owner: l.Owner, Path: append(append([]string{}, l.Path...), f.Name()), Typ: f.Type()}
				ownerT := env.ex.ownerType(l.Owner)
				fl, _ = u.canonLoc(fl, ownerT)
			} else {
				fl = u.sub(l, f.Name(), f.Type())
			}
			if isStruct(f.Type()) {
				cur = Val{Typ: types.NewPointer(f.Type()), Loc: fl}
				if len(fl.Path) == 0 {
					cur = Val{T: fl.Base, Typ: types.NewPointer(f.Type())}
				}
				curT = f.Type()
				continue
			}
			cur = u.load(env.cur, fl)
		} else {
			cur = cur.Fields[ix]
		}
		// follow embedded pointer
		if p := deref(f.Type()); p != nil && isStruct(p) {
			isPtr = true
			curT = p
		} else if isStruct(f.Type()) {
			curT = f.Type()
		}
	}
	if cur.Loc != nil && isStruct(curT) && cur.T == "" && cur.Typ != nil {
		if _, ok := cur.Typ.Underlying().(*types.Pointer); ok && isStruct(deref(cur.Typ)) {
			// selecting a nested struct value: load it
			return u.load(env.cur, cur.Loc)
		}
	}
	return cur
}

func findFieldPath(st types.Type, name string) []int {
	s := st.Underlying().(*types.Struct)
	for i := 0; i < s.NumFields(); i++ {
		if s.Field(i).Name() == name {
			return []int{i}
		}
	}
	for i := 0; i < s.NumFields(); i++ {
		f := s.Field(i)
		if !f.Embedded() {
			continue
		}
		ft := f.Type()
		if p := deref(ft); p != nil {
			ft = p
		}
		if isStruct(ft) {
			if sub := findFieldPath(ft, name); sub != nil {
				return append([]int{i}, sub...)
			}
		}
	}
	return nil
}

func (env *SpecEnv) unifyNil(a, b Val) (Val, Val) {
	if a.Typ == tNil && b.Typ != tNil {
		a = Val{T: nilOf(b.Typ), Typ: b.Typ}
	}
	if b.Typ == tNil && a.Typ != tNil {
		b = Val{T: nilOf(a.Typ), Typ: a.Typ}
	}
	return a, b
}

func nilOf(t types.Type) string {
	switch sortOf(t) {
	case SIface:
		return nilIface
	case SSlice:
		return nilSlice
	}
	return "0"
}

func (env *SpecEnv) binary(e *SExpr) Val {
	switch e.Name {
	case "&&", "||", "==>", "<==>":
		a := env.eval(e.Args[0])
		b := env.eval(e.Args[1])
		if sortOfSafe(a.Typ) != SBool || sortOfSafe(b.Typ) != SBool {
			env.fail(e, "boolean operator on non-boolean")
		}
		switch e.Name {
		case "&&":
			return boolVal(and(a.T, b.T))
		case "||":
			return boolVal(or(a.T, b.T))
		case "==>":
			return boolVal(implies(a.T, b.T))
		}
		return boolVal(eq(a.T, b.T))
	}
	a := env.eval(e.Args[0])
	b := env.eval(e.Args[1])
	a, b = env.unifyNil(a, b)
	switch e.Name {
	case "==", "!=":
		var t string
		// an interface compared with a pointer: box the pointer with its static type (as Go does)
		if sortOfSafe(a.Typ) == SIface && sortOfSafe(b.Typ) == SInt {
			b = env.box(b, a.Typ)
		} else if sortOfSafe(b.Typ) == SIface && sortOfSafe(a.Typ) == SInt {
			a = env.box(a, b.Typ)
		}
		if sortOfSafe(a.Typ) != sortOfSafe(b.Typ) {
			env.fail(e, "comparison of %s with %s", typeKey(a.Typ), typeKey(b.Typ))
		}
		sa := sortOfSafe(a.Typ)
		if sa == "struct" || sa == "tuple" {
			env.fail(e, "comparison of composite values")
		}
		if sa == SSlice && (b.T == nilSlice || a.T == nilSlice) {
			other := a.T
			if a.T == nilSlice {
				other = b.T
			}
			t = eq(sArr(other), "0")
		} else {
			t = eq(a.T, b.T)
		}
		if e.Name == "!=" {
			t = not(t)
		}
		return boolVal(t)
	case "<", "<=", ">", ">=":
		if sortOfSafe(a.Typ) == SStr {
			switch e.Name {
			case "<":
				return boolVal(app("strlt", a.T, b.T))
			case ">":
				return boolVal(app("strlt", b.T, a.T))
			}
			env.fail(e, "unsupported string comparison")
		}
		return boolVal(app(e.Name, a.T, b.T))
	case "+":
		if sortOfSafe(a.Typ) == SStr {
			return Val{T: app("sconcat", a.T, b.T), Typ: a.Typ}
		}
		return Val{T: plus(a.T, b.T), Typ: a.Typ}
	case "-":
		return Val{T: minus(a.T, b.T), Typ: a.Typ}
	case "*":
		return Val{T: app("*", a.T, b.T), Typ: a.Typ}
	case "/":
		return Val{T: app("div", a.T, b.T), Typ: a.Typ}
	case "%":
		return Val{T: app("mod", a.T, b.T), Typ: a.Typ}
	}
	env.fail(e, "unknown operator %s", e.Name)
	return Val{}
}

func (env *SpecEnv) call(e *SExpr) Val {
	u := env.u()
	arg := func(i int) Val {
		if i >= len(e.Args) {
			env.fail(e, "missing argument %d", i)
		}
		return env.eval(e.Args[i])
	}
	switch e.Name {
	case "old":
		if env.old == nil {
			env.fail(e, "old() not available here")
		}
		return env.with(env.old).eval(e.Args[0])
	case "entry":
		if env.entry == nil {
			env.fail(e, "entry() only inside loop invariants")
		}
		return env.with(env.entry).eval(e.Args[0])
	case "len":
		x := arg(0)
		switch sortOfSafe(x.Typ) {
		case SSlice:
			return intVal(sLen(x.T))
		case SStr:
			return intVal(app("strlen", x.T))
		}
		env.fail(e, "len of %s", typeKey(x.Typ))
	case "cap":
		return intVal(sCap(arg(0).T))
	case "arr":
		return intVal(sArr(arg(0).T))
	case "off":
		return intVal(sOff(arg(0).T))
	case "typeof":
		x := arg(0)
		if sortOfSafe(x.Typ) != SIface {
			env.fail(e, "typeof of non-interface")
		}
		return intVal(iTyp(x.T))
	case "ref":
		x := arg(0)
		if sortOfSafe(x.Typ) != SIface {
			env.fail(e, "ref of non-interface")
		}
		return intVal(iRef(x.T))
	case "iface":
		// iface(type(T), p): the interface value holding pointer p with dynamic type T
		return Val{T: mkI(arg(0).T, arg(1).T), Typ: types.NewInterfaceType(nil, nil)}
	case "fresh":
		if env.old == nil {
			env.fail(e, "fresh() needs a pre-state")
		}
		x := arg(0)
		u.keySort("next", SInt)
		return boolVal(and(app(">=", x.T, u.get(env.old, "next")), app("<", x.T, u.get(env.cur, "next"))))
	case "allocated":
		x := arg(0)
		u.keySort("next", SInt)
		return boolVal(app("<", x.T, u.get(env.cur, "next")))
	case "max", "min":
		a, b := arg(0), arg(1)
		op := ">="
		if e.Name == "min" {
			op = "<="
		}
		return Val{T: ite(app(op, a.T, b.T), a.T, b.T), Typ: a.Typ}
	case "hasPrefix", "strContains":
		u.markPattern(arg(1).T)
		return boolVal(app(e.Name, arg(0).T, arg(1).T))
	case "has":
		// has(m, k): key k in dom(m)
		m, k := arg(0), arg(1)
		mt, ok := m.Typ.Underlying().(*types.Map)
		if !ok {
			env.fail(e, "has() on non-map")
		}
		return env.ex.mapHas(env.cur, m, env.box(k, mt.Key()))
	case "implements":
		// implements(x, type(I))
		x := arg(0)
		if e.Args[1].Op != "type" {
			env.fail(e, "implements(x, type(I))")
		}
		it := env.ex.resolveType(e.Args[1].Name, env.pkg)
		return boolVal(u.implementsTerm(iTyp(x.T), it))
	case "row":
		// row(s): the whole backing array of slice s (for extensional frame statements)
		x := arg(0)
		xt, ok := x.Typ.Underlying().(*types.Slice)
		if !ok {
			env.fail(e, "row of non-slice")
		}
		key := "A$" + elemKey(xt.Elem())
		u.keySort(key, arr2(sortOf(xt.Elem())))
		return Val{T: sel(u.get(env.cur, key), sArr(x.T)), Typ: types.NewArray(xt.Elem(), -1)}
	case "rowAt":
		// rowAt(T, a): the whole backing array a in the element family of T (extensional frame statements)
		if len(e.Args) != 2 {
			env.fail(e, "rowAt(T, array)")
		}
		rt := env.ex.resolveType(e.Args[0].String(), env.pkg)
		if rt == nil {
			env.fail(e, "rowAt: unknown type %s", e.Args[0].String())
		}
		rkey := "A$" + elemKey(rt)
		u.keySort(rkey, arr2(sortOf(rt)))
		return Val{T: sel(u.get(env.cur, rkey), arg(1).T), Typ: types.NewArray(rt, -1)}
	case "elem":
		// elem(T, a, j): cell j of backing array a in the element family of T
		if len(e.Args) != 3 {
			env.fail(e, "elem(T, array, index)")
		}
		t := env.ex.resolveType(e.Args[0].String(), env.pkg)
		if t == nil {
			env.fail(e, "elem: unknown type %s", e.Args[0].String())
		}
		key := "A$" + elemKey(t)
		u.keySort(key, arr2(sortOf(t)))
		return Val{T: sel(sel(u.get(env.cur, key), arg(1).T), arg(2).T), Typ: t}
	case "rowsKeptSinceLoopEntry":
		// every backing array that existed at loop entry still has its loop-entry contents
		if env.entry == nil {
			env.fail(e, "rowsKeptSinceLoopEntry() only inside loop invariants")
		}
		u.keySort("next", SInt)
		var rks []string
		for k := range u.keySorts {
			if strings.HasPrefix(k, "A$") {
				rks = append(rks, k)
			}
		}
		sort.Strings(rks)
		rexcl := env.ex.frameExcluded()
		var rcs []string
		for _, k := range rks {
			if rexcl[k] {
				continue
			}
			c, o := u.get(env.cur, k), u.get(env.entry, k)
			if c == o {
				continue
			}
			c = u.patternable(c, u.keySorts[k])
			rcs = append(rcs, fmt.Sprintf("(forall ((x!f Int)) (! (=> (< x!f %s) (= (select %s x!f) (select %s x!f))) :pattern ((select %s x!f))))", u.get(env.entry, "next"), c, o, c))
		}
		return boolVal(and(rcs...))
	case "the":
		// the(type(T)): the one live local (or parameter) of type T — a way to name a local by its role rather than by
		// the identifier the code happens to use for it
		if len(e.Args) != 1 || e.Args[0].Op != "type" {
			env.fail(e, "the(type(T))")
		}
		t := env.ex.resolveType(e.Args[0].Name, env.pkg)
		if t == nil {
			env.fail(e, "the: unknown type %s", e.Args[0].Name)
		}
		var found *Val
		for name, v := range env.vars {
			if strings.HasPrefix(name, "$") || v.Typ == nil || v.T == "" || typeKey(v.Typ) != typeKey(t) {
				continue
			}
			if found != nil && found.T != v.T {
				env.fail(e, "the(%s): more than one live local of that type", e.Args[0].Name)
			}
			vv := v
			found = &vv
		}
		if found == nil {
			env.fail(e, "the(%s): no live local of that type", e.Args[0].Name)
		}
		return *found
	case "cast":
		// cast(x, type(*T)): the pointer held by interface value x, typed *T
		if len(e.Args) != 2 || e.Args[1].Op != "type" {
			env.fail(e, "cast(x, type(*T))")
		}
		t := env.ex.resolveType(e.Args[1].Name, env.pkg)
		if t == nil {
			env.fail(e, "cast: unknown type %s", e.Args[1].Name)
		}
		x := arg(0)
		if sortOfSafe(x.Typ) != SIface {
			env.fail(e, "cast of non-interface")
		}
		return Val{T: iRef(x.T), Typ: t}
	case "rlen", "rat", "rval", "rarr":
		// the reflective view of field `name` of node `parent` (reflect handle model)
		env.ex.reflKeys()
		parent, nm := arg(0), arg(1)
		switch e.Name {
		case "rlen":
			return intVal(sLen(env.ex.rHdr(env.cur, parent.T, nm.T)))
		case "rarr":
			return intVal(sArr(env.ex.rHdr(env.cur, parent.T, nm.T)))
		case "rat":
			h := env.ex.rHdr(env.cur, parent.T, nm.T)
			return Val{T: sel(sel(u.get(env.cur, rfNode), sArr(h)), cellIdx(sOff(h), arg(2).T)), Typ: types.NewInterfaceType(nil, nil)}
		default:
			return Val{T: sel(sel(u.get(env.cur, rfVal), parent.T), nm.T), Typ: types.NewInterfaceType(nil, nil)}
		}
	case "allocCounter":
		u.keySort("next", SInt)
		return intVal(u.get(env.cur, "next"))
	case "frameNew":
		// every heap array agrees with its entry value on all objects allocated before the call
		if env.old == nil {
			env.fail(e, "frameNew() needs a pre-state")
		}
		u.keySort("next", SInt)
		var ks []string
		for k := range u.keySorts {
			if strings.HasPrefix(k, "H$") || strings.HasPrefix(k, "A$") || strings.HasPrefix(k, "M$") || strings.HasPrefix(k, "MD$") || strings.HasPrefix(k, "C$") {
				ks = append(ks, k)
			}
		}
		sort.Strings(ks)
		excl := env.ex.frameExcluded()
		var cs []string
		for _, k := range ks {
			if excl[k] {
				continue // covered by an explicit modifies item
			}
			c, o := u.get(env.cur, k), u.get(env.old, k)
			if c == o {
				continue
			}
			c = u.patternable(c, u.keySorts[k])
			cs = append(cs, fmt.Sprintf("(forall ((x!f Int)) (! (=> (< x!f %s) (= (select %s x!f) (select %s x!f))) :pattern ((select %s x!f))))", u.get(env.old, "next"), c, o, c))
		}
		return boolVal(and(cs...))
	case "wasAllocated":
		if env.old == nil {
			env.fail(e, "wasAllocated() needs a pre-state")
		}
		u.keySort("next", SInt)
		return boolVal(and(app("<", "0", arg(0).T), app("<", arg(0).T, u.get(env.old, "next"))))
	}
	// spec functions
	name := e.Name
	if pf, ok := env.ex.db.Pures[name]; ok {
		return env.applyPure(e, pf)
	}
	env.fail(e, "unknown function %s", e.Name)
	return Val{}
}

func (env *SpecEnv) applyPure(e *SExpr, pf *PureFunc) Val {
	u := env.u()
	if env.depth > 40 {
		env.fail(e, "spec function recursion too deep")
	}
	ppkg := env.ex.pkgByPath(pf.Pkg)
	if ppkg == nil {
		ppkg = env.pkg
	}
	var params []SBind
	if pf.Recv != nil {
		params = append(params, *pf.Recv)
	}
	params = append(params, pf.Params...)
	if len(params) != len(e.Args) {
		env.fail(e, "%s expects %d arguments", pf.Name, len(params))
	}
	var args []Val
	for _, a := range e.Args {
		args = append(args, env.eval(a))
	}
	if pf.Body == nil {
		// uninterpreted
		var sorts, terms []string
		for i, p := range params {
			t := env.ex.resolveType(p.Type, ppkg)
			if t == nil {
				env.fail(e, "unknown type %s", p.Type)
			}
			sorts = append(sorts, sortOf(t))
			a := args[i]
			if a.Typ == tNil {
				a = Val{T: nilOf(t), Typ: t}
			}
			a = env.box(a, t)
			terms = append(terms, a.T)
		}
		rt := env.ex.resolveType(pf.Ret, ppkg)
		if rt == nil {
			env.fail(e, "unknown type %s", pf.Ret)
		}
		fn := smtName("spec$" + pf.Name)
		u.declareFun(fn, sorts, sortOf(rt))
		return Val{T: app(fn, terms...), Typ: rt}
	}
	n := &SpecEnv{ex: env.ex, vars: map[string]Val{}, cur: env.cur, old: env.old, entry: env.entry, pkg: ppkg, depth: env.depth + 1}
	for i, p := range params {
		a := args[i]
		if pt := env.ex.resolveType(p.Type, ppkg); pt != nil {
			if a.Typ == tNil {
				a = Val{T: nilOf(pt), Typ: pt}
			}
			a = env.box(a, pt)
		}
		n.vars[p.Name] = a
	}
	return n.eval(pf.Body)
}

// box converts a pointer-typed argument to an interface value when the parameter is an interface.
func (env *SpecEnv) box(a Val, param types.Type) Val {
	if a.Typ == nil || sortOfSafe(param) != SIface || sortOfSafe(a.Typ) != SInt {
		return a
	}
	if _, ok := a.Typ.Underlying().(*types.Pointer); !ok {
		return a
	}
	return Val{T: mkI(intLit(int64(env.u().typeID(a.Typ))), a.T), Typ: param}
}
