package main

// Replays against the real code. The verifier seldom yields a model here (the failing obligations
// are quantified or structural), so the replay does not start from one: for an obligation about one
// generated case it builds the *canonical instance* of that node type (every optional child present,
// two elements per list, a unique comment on every decoration point) and runs the real function on
// it with a run-time oracle for the property; for the decoration-list operations it runs a small
// bounded search over list/argument/aliasing shapes. The test file is injected with `go test
// -overlay` (nothing is written to the tree under check). A replay that reproduces the violation
// turns the line into one with a concrete failing input; one that does not leaves the line ending
// in no-failing-input-found (the obligation is still undischarged).

import (
	"context"
	"encoding/json"
	"fmt"
	"os"
	"os/exec"
	"path/filepath"
	"regexp"
	"strings"
	"sync"
	"time"
)

type replaySpec struct {
	Kind, Case, PkgDir, Part string
}

var (
	reRClone    = regexp.MustCompile(`Clone/(\w+)#`)
	reRRestore  = regexp.MustCompile(`restoreNode/(\w+)#`)
	reRWalk     = regexp.MustCompile(`Walk/(\w+)#`)
	reRAccessor = regexp.MustCompile(`^(?:decorations|Decorations)/(\w+)#`)
	reRHelpers  = regexp.MustCompile(`\(\*decorator\.FileRestorer\)\.(applyDecorations|applySpace|addCommentField|applyLiteral)#`)
	reRCursor   = regexp.MustCompile(`\(\*dstutil\.Cursor\)\.|^applyList#|\(\*dstutil\.application\)\.applyList#|^dstutil\.Apply#`)
	reRGraph    = regexp.MustCompile(`\.(decorateObject|decorateScope|restoreObject|restoreScope)#|#graph:`)
	reRSave     = regexp.MustCompile(`\(\*decorator\.Package\)\.save#`)
	reRErrors   = regexp.MustCompile(`#errors:|error_returned_before|decorating_functions_never_store`)
	reRImports  = regexp.MustCompile(`updateImports(\$\d+)?#loop|#imports:|#imports-path:`)
	reRAttach   = regexp.MustCompile(`\(\*decorator\.fileDecorator\)\.(link|findDecoration|findIndentedComments|attachToDecoration|fragment|addNodeFragments|add\w+Fragment)#|#attach:|^decorator\.append(Decoration|NewLine)#`)
	reRDecList  = regexp.MustCompile(`\(\*dst\.Decorations\)\.(\w+)#`)
)

func replayFor(obligation string) *replaySpec {
	if reRAttach.MatchString(obligation) {
		return &replaySpec{"attach", "comments", "decorator", "decorator_test.go.part"}
	}
	if reRErrors.MatchString(obligation) {
		return &replaySpec{"errors", "resolvers", "decorator", "decorator_test.go.part"}
	}
	if reRImports.MatchString(obligation) {
		return &replaySpec{"imports", "imports", "decorator", "decorator_test.go.part"}
	}
	if reRGraph.MatchString(obligation) {
		return &replaySpec{"graph", "objects", "decorator", "decorator_test.go.part"}
	}
	if m := reRClone.FindStringSubmatch(obligation); m != nil {
		return &replaySpec{"clone", m[1], ".", "dst_test.go.part"}
	}
	if m := reRRestore.FindStringSubmatch(obligation); m != nil {
		return &replaySpec{"restore", m[1], "decorator", "decorator_test.go.part"}
	}
	if m := reRWalk.FindStringSubmatch(obligation); m != nil {
		return &replaySpec{"walk", m[1], ".", "dst_test.go.part"}
	}
	if m := reRAccessor.FindStringSubmatch(obligation); m != nil {
		return &replaySpec{"accessor", m[1], "dstutil", "dstutil_test.go.part"}
	}
	if reRGraph.MatchString(obligation) {
		return &replaySpec{"graph", "objects", "decorator", "decorator_test.go.part"}
	}
	if reRImports.MatchString(obligation) {
		return &replaySpec{"imports", "imports", "decorator", "decorator_test.go.part"}
	}
	if reRSave.MatchString(obligation) {
		return &replaySpec{"save", "save", "decorator", "decorator_test.go.part"}
	}
	if reRErrors.MatchString(obligation) {
		return &replaySpec{"errors", "resolvers", "decorator", "decorator_test.go.part"}
	}
	if reRCursor.MatchString(obligation) {
		return &replaySpec{"cursor", "apply", "dstutil", "dstutil_test.go.part"}
	}
	if m := reRHelpers.FindStringSubmatch(obligation); m != nil {
		return &replaySpec{"helpers", m[1], "decorator", "decorator_test.go.part"}
	}
	if m := reRDecList.FindStringSubmatch(obligation); m != nil {
		return &replaySpec{"declist", m[1], ".", "dst_test.go.part"}
	}
	return nil
}

var (
	replayMu    sync.Mutex
	replayCache = map[string]*ReplayOutcome{}
	replayRuns  int
)

const maxReplays = 8

// genericReplay runs (once per kind/case and check run) the replay that belongs to an obligation.
func genericReplay(obligation string) *ReplayOutcome {
	sp := replayFor(obligation)
	if sp == nil || os.Getenv("GOVC_NO_REPLAY") != "" {
		return nil
	}
	key := sp.Kind + "/" + sp.Case
	replayMu.Lock()
	defer replayMu.Unlock()
	if out, ok := replayCache[key]; ok {
		return out
	}
	if replayRuns >= maxReplays {
		return nil
	}
	replayRuns++
	out := runReplay(sp)
	replayCache[key] = out
	return out
}

func runReplay(sp *replaySpec) *ReplayOutcome {
	repo := repoRoot()
	tmp, err := os.MkdirTemp("", "govc-replay-")
	if err != nil {
		return nil
	}
	defer os.RemoveAll(tmp)
	rdir := filepath.Join(verifRoot(), "replay")
	head, err1 := os.ReadFile(filepath.Join(rdir, sp.Part))
	canon, err2 := os.ReadFile(filepath.Join(rdir, "canon.go.part"))
	if err1 != nil || err2 != nil {
		return nil
	}
	testFile := filepath.Join(tmp, "zz_govc_replay_test.go")
	if err := os.WriteFile(testFile, append(append(head, '\n'), canon...), 0o644); err != nil {
		return nil
	}
	target := filepath.Join(repo, sp.PkgDir, "zz_govc_replay_test.go")
	ov, _ := json.Marshal(map[string]interface{}{"Replace": map[string]string{target: testFile}})
	ovFile := filepath.Join(tmp, "overlay.json")
	_ = os.WriteFile(ovFile, ov, 0o644)
	pkg := "./" + sp.PkgDir + "/"
	if sp.PkgDir == "." {
		pkg = "."
	}
	args := []string{"test", "-overlay", ovFile, "-vet=off", "-count=1", "-timeout", "90s", "-run", "^TestZZGovcReplay$", pkg}
	ctx, cancel := context.WithTimeout(context.Background(), 150*time.Second)
	defer cancel()
	cmd := exec.CommandContext(ctx, "go", args...)
	cmd.Dir = repo
	cmd.Env = append(os.Environ(), "GOFLAGS=-mod=mod", "GOPROXY=off", "GOSUMDB=off", "GOTOOLCHAIN=local",
		"GOVC_REPLAY_KIND="+sp.Kind, "GOVC_REPLAY_CASE="+sp.Case)
	b, _ := cmd.CombinedOutput()
	text := string(b)
	out := &ReplayOutcome{
		Cmd: fmt.Sprintf("GOVC_REPLAY_KIND=%s GOVC_REPLAY_CASE=%s go test -overlay <%s + canon.go.part as %s/zz_govc_replay_test.go> -vet=off -run TestZZGovcReplay %s", sp.Kind, sp.Case, sp.Part, sp.PkgDir, pkg),
	}
	var fails []string
	for _, l := range strings.Split(text, "\n") {
		switch {
		case strings.HasPrefix(l, "REPLAY-INPUT: "):
			out.Input = strings.TrimPrefix(l, "REPLAY-INPUT: ")
		case strings.HasPrefix(l, "REPLAY-FAIL: "):
			fails = append(fails, strings.TrimPrefix(l, "REPLAY-FAIL: "))
		}
	}
	if len(fails) > 0 {
		out.Reproduced = true
		if len(fails) > 6 {
			fails = append(fails[:6], fmt.Sprintf("… and %d more", len(fails)-6))
		}
		out.Observed = strings.Join(fails, "; ")
	} else if !strings.Contains(text, "REPLAY-OK") {
		// the replay itself did not run (build failure, timeout): say so, it proves nothing
		if len(text) > 1500 {
			text = text[len(text)-1500:]
		}
		out.Output = "replay did not complete: " + text
	} else {
		out.Output = "the canonical instance satisfies the run-time oracle: the violation needs a different input"
	}
	return out
}

// replayRelevant: the failure the replay observed is of the kind the obligation is about (a restore
// replay checks fields, maps, positions and decorations at once; an obligation about positions is not
// confirmed by a dropped field).
func replayRelevant(obligation string, out *ReplayOutcome) bool {
	sp := replayFor(obligation)
	if sp == nil || out == nil || !out.Reproduced {
		return false
	}
	if sp.Kind != "restore" {
		return true
	}
	has := func(subs ...string) bool {
		for _, s := range subs {
			if strings.Contains(out.Observed, s) {
				return true
			}
		}
		return false
	}
	switch {
	case strings.Contains(obligation, "#maps:") || strings.Contains(obligation, "mapped") || strings.Contains(obligation, "map_grows"):
		return has("node maps")
	case strings.Contains(obligation, "#pos:") || strings.Contains(obligation, ":inv") || strings.Contains(obligation, "cursor") || strings.Contains(obligation, "lines"):
		return has("positions:", "line table", "panicked")
	case strings.Contains(obligation, "#tape:") || strings.Contains(obligation, "#comments:"):
		return has("decoration", "comments out of source order")
	case strings.Contains(obligation, "#fields:") || strings.Contains(obligation, "foreach_"):
		return has("restored", "counterpart", "list of")
	}
	return true
}
