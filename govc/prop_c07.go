package main

// C07 (partial): the parts of import management that are functions of their own.
//   - restoreNode/Ident (with restoreIdent inlined): qualified iff the identifier carries the path of
//     another package imported under a name, and then a selector on exactly the chosen name;
//   - packagePathOrderLess is a strict total order, so the sorted list of required paths — the order in
//     which conflicting names are renamed — is a function of the set of paths alone.
//   - updateImports, alias precedence: loop invariants of the two loops that compute effectiveAlias and
//     an assertion at the head of the loop that follows them.
// The rest of updateImports (collection, name selection, block edits) is not decided.

import (
	"fmt"
	"go/types"
	"strings"

	"golang.org/x/tools/go/ssa"
)

func init() {
	register(&Property{
		ID:       "C07",
		Title:    "Import-managed restore binds each reference to its package; imports stay exact",
		Packages: []string{pkgDecorator},
		Build: func(p *Program, tier string) ([]*Unit, []UnitError) {
			var us []*Unit
			var es []UnitError
			for _, nt := range p.nodeTypes(pkgDst) {
				if nt.Name != "Ident" || !wantUnit("restoreNode/Ident") {
					continue
				}
				u, err := p.verifyFunc(fr("restoreNode"), restoreNodeOpts(p, nt))
				if err != nil {
					es = append(es, UnitError{"restoreNode/Ident", err.Error()})
					continue
				}
				us = append(us, u)
			}
			us3, es3 := buildFuncUnits(p, []string{fr("updateImports")}, nil)
			us, es = append(us, us3...), append(es, es3...)
			us4, es4 := buildImportPathRule(p)
			us, es = append(us, us4...), append(es, es4...)
			us2, es2 := buildFuncUnits(p, []string{pkgDecorator + ".lemmaOrderIrreflexive", pkgDecorator + ".lemmaOrderAsymmetric", pkgDecorator + ".lemmaOrderTransitive", pkgDecorator + ".lemmaOrderTotal"}, nil)
			return append(us, us2...), append(es, es2...)
		},
		Select: func(n string) bool {
			return strings.Contains(n, "#imports:") || strings.Contains(n, "lemmaOrder") || strings.HasSuffix(n, "#ensures:plain_ident") ||
				strings.Contains(n, "updateImports#loop") || strings.Contains(n, "updateImports$3#loop") || strings.Contains(n, "#imports-path:")
		},
		Siblings: "C03 C04 C05 C11 C12 (other labels of restoreNode/Ident)",
		Assumptions: []string{
			"r.packageNames is the table updateImports left (path -> name in code, \"\" for dot imports): that it binds each used path to the name of exactly one import spec is NOT decided",
			"string comparison < is a strict total order on strings (assumed axioms of the uninterpreted string sort)",
			"sort.Slice with a strict total order yields the unique sorted permutation (assumed)",
		},
		NotDecided: []string{
			"updateImports: that the import declarations contain each referenced path exactly once plus blank and cgo imports and nothing else",
			"updateImports: blocks that need no addition keep order and decorations",
			"that the printed file type-checks",
		},
	})
}

// buildImportPathRule: import management identifies a package by what the import literal denotes.
// Every read of an import literal's text (dst.BasicLit.Value reached in updateImports, its closures
// and the package functions they call) is handed to strconv.Unquote (through mustUnquote) and to
// nothing else: a second, home-made way of reading paths (trimming quotes, say) disagrees with the
// first on raw-string and escaped literals, and the collection and the filtering of specs would then
// talk about different paths.
func buildImportPathRule(p *Program) ([]*Unit, []UnitError) {
	ex := p.newExec("updateImports/paths")
	root := p.fns[fr("updateImports")]
	if root == nil {
		return nil, []UnitError{{"updateImports/paths", "updateImports not found"}}
	}
	seen := map[*ssa.Function]bool{}
	var fns []*ssa.Function
	var visit func(fn *ssa.Function, depth int)
	visit = func(fn *ssa.Function, depth int) {
		if fn == nil || seen[fn] || len(fn.Blocks) == 0 || depth > 3 {
			return
		}
		seen[fn] = true
		fns = append(fns, fn)
		for _, a := range fn.AnonFuncs {
			visit(a, depth)
		}
		for _, b := range fn.Blocks {
			for _, in := range b.Instrs {
				if c, ok := in.(*ssa.Call); ok {
					if callee := c.Call.StaticCallee(); callee != nil && callee.Pkg == root.Pkg && callee.Signature.Recv() == nil {
						visit(callee, depth+1)
					}
				}
			}
		}
	}
	visit(root, 0)
	reads, bad := 0, []string{}
	for _, fn := range fns {
		if fn.Name() == "mustUnquote" {
			continue
		}
		for _, b := range fn.Blocks {
			for _, in := range b.Instrs {
				ld, ok := in.(*ssa.UnOp)
				if !ok {
					continue
				}
				fa, ok := ld.X.(*ssa.FieldAddr)
				if !ok {
					continue
				}
				st := deref(fa.X.Type())
				if typeKey(st) != "dst.BasicLit" || st.Underlying().(*types.Struct).Field(fa.Field).Name() != "Value" {
					continue
				}
				reads++
				for _, r := range *ld.Referrers() {
					switch u := r.(type) {
					case *ssa.DebugRef:
					case *ssa.Call:
						if callee := u.Call.StaticCallee(); callee != nil && (callee.Name() == "mustUnquote" || callee.String() == "strconv.Unquote") {
							continue
						}
						bad = append(bad, fmt.Sprintf("%s: passed to %s", ex.pos(ld.Pos()), u.Call.Value.Name()))
					default:
						bad = append(bad, fmt.Sprintf("%s: used by %T", ex.pos(ld.Pos()), r))
					}
				}
			}
		}
		ex.unit.addFunc(fn.String())
	}
	goal := "true"
	if len(bad) > 0 || reads == 0 {
		goal = "false"
	}
	o := ex.oblige("updateImports#imports-path:literals_read_through_strconv_Unquote", "frame", "true", goal,
		fmt.Sprintf("%d reads of import literals in %d functions; other uses: %v", reads, len(fns), bad), "")
	o.Guard = "true"
	return []*Unit{ex.unit}, nil
}
