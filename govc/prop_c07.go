package main

// C07 (partial): the parts of import management that are functions of their own.
//   - restoreNode/Ident (with restoreIdent inlined): qualified iff the identifier carries the path of
//     another package imported under a name, and then a selector on exactly the chosen name;
//   - packagePathOrderLess is a strict total order, so the sorted list of required paths — the order in
//     which conflicting names are renamed — is a function of the set of paths alone.
//   - updateImports, alias precedence: loop invariants of the two loops that compute effectiveAlias and
//     an assertion at the head of the loop that follows them.
// The rest of updateImports (collection, name selection, block edits) is not decided.

import "strings"

func init() {
	register(&Property{
		ID:       "C07",
		Title:    "Import-managed restore binds each reference to its package; imports stay exact",
		Packages: []string{pkgDecorator},
		Build: func(p *Program, tier string) ([]*Unit, []UnitError) {
			var us []*Unit
			var es []UnitError
			for _, nt := range p.nodeTypes(pkgDst) {
				if nt.Name != "Ident" || !wantUnit("restoreNode/Ident") {
					continue
				}
				u, err := p.verifyFunc(fr("restoreNode"), restoreNodeOpts(p, nt))
				if err != nil {
					es = append(es, UnitError{"restoreNode/Ident", err.Error()})
					continue
				}
				us = append(us, u)
			}
			us3, es3 := buildFuncUnits(p, []string{fr("updateImports")}, nil)
			us, es = append(us, us3...), append(es, es3...)
			us2, es2 := buildFuncUnits(p, []string{pkgDecorator + ".lemmaOrderIrreflexive", pkgDecorator + ".lemmaOrderAsymmetric", pkgDecorator + ".lemmaOrderTransitive", pkgDecorator + ".lemmaOrderTotal"}, nil)
			return append(us, us2...), append(es, es2...)
		},
		Select: func(n string) bool {
			return strings.Contains(n, "#imports:") || strings.Contains(n, "lemmaOrder") || strings.HasSuffix(n, "#ensures:plain_ident") ||
				strings.Contains(n, "updateImports#loop") || strings.Contains(n, "updateImports$3#loop")
		},
		Siblings: "C03 C04 C05 C11 C12 (other labels of restoreNode/Ident)",
		Assumptions: []string{
			"r.packageNames is the table updateImports left (path -> name in code, \"\" for dot imports): that it binds each used path to the name of exactly one import spec is NOT decided",
			"string comparison < is a strict total order on strings (assumed axioms of the uninterpreted string sort)",
			"sort.Slice with a strict total order yields the unique sorted permutation (assumed)",
		},
		NotDecided: []string{
			"updateImports: that the import declarations contain each referenced path exactly once plus blank and cgo imports and nothing else",
			"updateImports: blocks that need no addition keep order and decorations",
			"that the printed file type-checks",
		},
	})
}
