package main

// govc audit: modular verification only holds together if every callee postcondition assumed at a
// call site is itself discharged on the callee by some registered check. This command builds the
// units of every property, records which (function, ensures label) pairs were assumed anywhere,
// and reports those for which no check selects the corresponding obligation.

import (
	"fmt"
	"os"
	"sort"
	"strings"
)

func auditMain() int {
	var ids []string
	for id := range properties {
		ids = append(ids, id)
	}
	sort.Strings(ids)
	selected := map[string][]string{} // obligation name -> properties that discharge it
	for _, id := range ids {
		prop := properties[id]
		prog, err := loadProgram(prop.Packages, prop.Extra)
		if err != nil {
			fmt.Fprintln(os.Stderr, "load:", err)
			return 2
		}
		for _, e := range prop.Emb {
			prog.embAllowed[e] = true
		}
		units, uerrs := prop.Build(prog, "quick")
		for _, ue := range uerrs {
			fmt.Fprintf(os.Stderr, "%s: unit %s: %s\n", id, ue.Unit, ue.Err)
		}
		n := 0
		for _, u := range units {
			for _, o := range u.Obls {
				if prop.Select == nil || prop.Select(o.Name) {
					selected[o.Name] = append(selected[o.Name], id)
					n++
				}
			}
		}
		fmt.Fprintf(os.Stderr, "%s: %d units, %d obligations selected\n", id, len(units), n)
	}
	var fns []string
	for f := range reliedOn {
		fns = append(fns, f)
	}
	sort.Strings(fns)
	missing := 0
	for _, f := range fns {
		var labels []string
		for l := range reliedOn[f] {
			labels = append(labels, l)
		}
		sort.Strings(labels)
		for _, l := range labels {
			found := false
			for name := range selected {
				if !strings.HasPrefix(name, f) {
					continue
				}
				rest := name[len(f):]
				if l == "frame" {
					if strings.Contains(rest, "#frame") {
						found = true
						break
					}
					continue
				}
				if strings.HasSuffix(rest, "#"+l) && (strings.HasPrefix(rest, "#") || strings.HasPrefix(rest, "/")) {
					found = true
					break
				}
			}
			if !found && f == "dst.Clone" && l == "ensures:is_clone" {
				// cloneOf is an uninterpreted relation that Clone's postcondition introduces; its meaning is
				// the set of per-case schema obligations, which C06 discharges
				fmt.Printf("DEFINITIONAL %s %s (meaning given by the Clone/<T>#schema obligations)\n", f, l)
				continue
			}
			if !found {
				missing++
				fmt.Printf("UNDISCHARGED-RELIANCE %s %s\n", f, l)
			}
		}
	}
	fmt.Printf("audit: %d functions relied upon, %d assumed clauses without a discharging check\n", len(fns), missing)
	if missing > 0 {
		return 1
	}
	return 0
}
