package main

// Contract files: comment-only Go files (build tag verif) in /repo, and *.spec files under
// /verif/contracts/ext for assumed contracts of external code. Only lines starting with //@ count.
//
//   //@ package <import path>            (ext files; repo files take it from their directory)
//   //@ func (r *T) Name   |  //@ func Name
//   //@ trusted                          contract is assumed, never verified (ext only)
//   //@ requires [label:] expr
//   //@ ensures  [label:] expr
//   //@ modifies item, item, ...         r.f | heap(T.f) | elems(T) | cells(T) | map(K,V) | ghost(g) | alloc
//   //@ let name := expr                 abbreviation usable in later clauses (evaluated in the entry state)
//   //@ loop N invariant [label:] expr
//   //@ pure func name(a T, b U) R { expr }      macro-expanded spec function (may read the heap)
//   //@ pred (r *T) name(a T) bool { expr }      same, method style
//   //@ uninterp func name(a T) R                uninterpreted function
//   //@ ghost var name T                          ghost global
//   //@ lemma name: expr                          stand-alone obligation over contracts
//
// A //@ line that does not start with one of the keywords continues the previous clause.

import (
	"bufio"
	"fmt"
	"os"
	"path/filepath"
	"regexp"
	"sort"
	"strconv"
	"strings"
)

type Clause struct {
	Label string
	Expr  *SExpr
	Src   string
	File  string
	Line  int
}

type FuncContract struct {
	Key       string
	Pkg       string
	Requires  []Clause
	Assumes   []Clause
	Tracks    []Clause // state predicates re-established at every join (proved per incoming edge, then carried over by congruence)
	Ensures   []Clause
	Modifies  []string
	HasMod    bool
	Lets      []Clause // Label = name
	Loops     map[int][]Clause
	LoopExits map[int][]Clause // loop N exit: asserted on every edge that leaves the loop
	Foreach   []Clause         // templates with $src / $dst, instantiated for loops of the append-each idiom
	Trusted   bool
	File      string
	Line      int
	Attrs     map[string]string
	Cases     map[string]*FuncContract // per-case sections (`case T`) for the generated type switches
	parent    *FuncContract
}

type PureFunc struct {
	Name   string
	Pkg    string
	Recv   *SBind
	Params []SBind
	Ret    string
	Body   *SExpr // nil for uninterpreted
	Src    string
}

type GhostVar struct {
	Name string
	Type string
	Pkg  string
}

// SharedType: a type whose values may be used by several goroutines; Guarded maps field -> mutex field.
type SharedType struct {
	Pkg     string
	Name    string
	Guarded map[string]string
	File    string
}

type Lemma struct {
	Name string
	Pkg  string
	Expr *SExpr
	Src  string
}

type ContractDB struct {
	Funcs  map[string]*FuncContract
	Pures  map[string]*PureFunc // by name (and ".name" for preds)
	Ghosts map[string]*GhostVar
	Lemmas []*Lemma
	Shared []*SharedType // lock-discipline declarations
	Files  []string
	Scan   []string // lines containing assume/axiom/trusted (reported in evidence)
}

func newContractDB() *ContractDB {
	return &ContractDB{Funcs: map[string]*FuncContract{}, Pures: map[string]*PureFunc{}, Ghosts: map[string]*GhostVar{}}
}

var (
	reFuncHdr   = regexp.MustCompile(`^func\s+(?:\(\s*(\w+)\s+(\*?)([\w.]+)\s*\)\s+)?(\w+(?:\.\w+)*(?:\$\d+)?)\s*$`)
	reLabel     = regexp.MustCompile(`^([A-Za-z_][A-Za-z0-9_]*):\s+(.*)$`)
	rePure      = regexp.MustCompile(`^(pure|pred|uninterp)\s+(?:func\s+)?(?:\(\s*(\w+)\s+(\*?[\w.]+)\s*\)\s+)?(\w+)\s*\(([^)]*)\)\s*([\w.*\[\]]*)\s*(?:\{(.*)\}\s*)?$`)
	reLoop      = regexp.MustCompile(`^loop\s+(\d+)\s+invariant\s+(.*)$`)
	reLoopExit  = regexp.MustCompile(`^loop\s+(\d+)\s+exit\s+(.*)$`)
	reGhost     = regexp.MustCompile(`^ghost\s+var\s+(\w+)\s+([\w.*\[\]]+)\s*$`)
	reLet       = regexp.MustCompile(`^let\s+(\w+)\s*:=\s*(.*)$`)
	keywordsSet = map[string]bool{"package": true, "func": true, "trusted": true, "requires": true, "ensures": true, "modifies": true,
		"let": true, "loop": true, "foreach": true, "case": true, "assumes": true, "tracks": true, "shared": true, "guarded": true, "pure": true, "pred": true, "uninterp": true, "ghost": true, "lemma": true, "attr": true}
)

type rawClause struct {
	text string
	line int
}

// loadContractFile parses one file. pkg may be "" for ext files (must then contain //@ package).
func (db *ContractDB) loadContractFile(path, pkg string) error {
	f, err := os.Open(path)
	if err != nil {
		return err
	}
	defer f.Close()
	db.Files = append(db.Files, path)
	var clauses []rawClause
	sc := bufio.NewScanner(f)
	sc.Buffer(make([]byte, 1<<20), 1<<20)
	ln := 0
	for sc.Scan() {
		ln++
		line := strings.TrimSpace(sc.Text())
		if !strings.HasPrefix(line, "//@") {
			continue
		}
		body := strings.TrimSpace(strings.TrimPrefix(line, "//@"))
		if body == "" {
			continue
		}
		// strip trailing comments introduced by " // "
		if i := strings.Index(body, " // "); i >= 0 && !strings.Contains(body[:i], "\"") {
			body = strings.TrimSpace(body[:i])
		}
		for _, w := range []string{"assume", "axiom", "trusted", "admit"} {
			if strings.Contains(body, w) {
				db.Scan = append(db.Scan, fmt.Sprintf("%s:%d: %s", path, ln, body))
				break
			}
		}
		first := strings.Fields(body)[0]
		if keywordsSet[first] || len(clauses) == 0 {
			clauses = append(clauses, rawClause{body, ln})
		} else {
			clauses[len(clauses)-1].text += " " + body
		}
	}
	var cur *FuncContract
	for _, rc := range clauses {
		fail := func(e error) error { return fmt.Errorf("%s:%d: %v", path, rc.line, e) }
		first := strings.Fields(rc.text)[0]
		rest := strings.TrimSpace(strings.TrimPrefix(rc.text, first))
		mk := func(s string) (Clause, error) {
			c := Clause{Src: s, File: path, Line: rc.line}
			if m := reLabel.FindStringSubmatch(s); m != nil && !strings.HasPrefix(m[2], ":") {
				c.Label = m[1]
				s = m[2]
			}
			e, err := parseSpec(s)
			if err != nil {
				return c, err
			}
			c.Expr = e
			return c, nil
		}
		switch first {
		case "package":
			pkg = rest
			cur = nil
		case "func":
			m := reFuncHdr.FindStringSubmatch(rc.text)
			if m == nil {
				return fail(fmt.Errorf("bad func header %q", rc.text))
			}
			if pkg == "" {
				return fail(fmt.Errorf("no package for contract"))
			}
			key := funcKey(pkg, m[2] == "*", m[3], m[4])
			if m[3] == "" {
				key = funcKey(pkg, false, "", m[4])
			}
			if _, dup := db.Funcs[key]; dup {
				return fail(fmt.Errorf("duplicate contract for %s", key))
			}
			cur = &FuncContract{Key: key, Pkg: pkg, Loops: map[int][]Clause{}, File: path, Line: rc.line, Attrs: map[string]string{}}
			db.Funcs[key] = cur
		case "case":
			if cur == nil {
				return fail(fmt.Errorf("case outside func"))
			}
			top := cur
			if cur.parent != nil {
				top = cur.parent
			}
			if top.Cases == nil {
				top.Cases = map[string]*FuncContract{}
			}
			sub := &FuncContract{Key: top.Key, Pkg: top.Pkg, Loops: map[int][]Clause{}, File: path, Line: rc.line, Attrs: map[string]string{}, parent: top}
			top.Cases[rest] = sub
			cur = sub
		case "trusted":
			if cur == nil {
				return fail(fmt.Errorf("trusted outside func"))
			}
			cur.Trusted = true
		case "attr":
			if cur == nil {
				return fail(fmt.Errorf("attr outside func"))
			}
			kv := strings.SplitN(rest, "=", 2)
			if len(kv) == 2 {
				cur.Attrs[strings.TrimSpace(kv[0])] = strings.TrimSpace(kv[1])
			} else {
				cur.Attrs[rest] = "true"
			}
		case "shared":
			db.Shared = append(db.Shared, &SharedType{Pkg: pkg, Name: rest, Guarded: map[string]string{}, File: path})
			cur = nil
		case "guarded":
			f := strings.Fields(rest)
			if len(db.Shared) == 0 || len(f) != 3 || f[1] != "by" {
				return fail(fmt.Errorf("guarded <field> by <mutex> must follow a shared declaration"))
			}
			db.Shared[len(db.Shared)-1].Guarded[f[0]] = f[2]
		case "tracks":
			if cur == nil {
				return fail(fmt.Errorf("tracks outside func"))
			}
			c, err := mk(rest)
			if err != nil {
				return fail(err)
			}
			cur.Tracks = append(cur.Tracks, c)
		case "requires", "ensures", "assumes":
			if cur == nil {
				return fail(fmt.Errorf("%s outside func", first))
			}
			c, err := mk(rest)
			if err != nil {
				return fail(err)
			}
			if first == "assumes" {
				// a data invariant of the input heap that callers are not asked to prove; reported as an assumption
				cur.Assumes = append(cur.Assumes, c)
			} else if first == "requires" {
				cur.Requires = append(cur.Requires, c)
			} else {
				cur.Ensures = append(cur.Ensures, c)
			}
		case "modifies":
			if cur == nil {
				return fail(fmt.Errorf("modifies outside func"))
			}
			cur.HasMod = true
			for _, it := range splitTopComma(rest) {
				it = strings.TrimSpace(it)
				if it != "" && it != "nothing" {
					cur.Modifies = append(cur.Modifies, it)
				}
			}
		case "let":
			if cur == nil {
				return fail(fmt.Errorf("let outside func"))
			}
			m := reLet.FindStringSubmatch(rc.text)
			if m == nil {
				return fail(fmt.Errorf("bad let"))
			}
			e, err := parseSpec(m[2])
			if err != nil {
				return fail(err)
			}
			cur.Lets = append(cur.Lets, Clause{Label: m[1], Expr: e, Src: m[2], File: path, Line: rc.line})
		case "loop":
			if cur == nil {
				return fail(fmt.Errorf("loop outside func"))
			}
			if mx := reLoopExit.FindStringSubmatch(rc.text); mx != nil {
				// loop N exit label: expr — holds whenever the loop is left (checked on every exit edge)
				n, _ := strconv.Atoi(mx[1])
				c, err := mk(mx[2])
				if err != nil {
					return fail(err)
				}
				if cur.LoopExits == nil {
					cur.LoopExits = map[int][]Clause{}
				}
				cur.LoopExits[n] = append(cur.LoopExits[n], c)
				continue
			}
			if strings.HasPrefix(rc.text, "loop * invariant") {
				// loop * invariant label: expr — an invariant of every loop of the function (ordinal 0)
				c, err := mk(strings.TrimSpace(strings.TrimPrefix(rc.text, "loop * invariant")))
				if err != nil {
					return fail(err)
				}
				cur.Loops[0] = append(cur.Loops[0], c)
				continue
			}
			m := reLoop.FindStringSubmatch(rc.text)
			if m == nil {
				return fail(fmt.Errorf("bad loop clause"))
			}
			n, _ := strconv.Atoi(m[1])
			c, err := mk(m[2])
			if err != nil {
				return fail(err)
			}
			cur.Loops[n] = append(cur.Loops[n], c)
		case "foreach":
			if cur == nil {
				return fail(fmt.Errorf("foreach outside func"))
			}
			body := strings.TrimSpace(strings.TrimPrefix(rest, "invariant"))
			c := Clause{Src: body, File: path, Line: rc.line}
			if m := reLabel.FindStringSubmatch(body); m != nil && !strings.HasPrefix(m[2], ":") {
				c.Label = m[1]
				c.Src = m[2]
			}
			// parsed at instantiation time
			cur.Foreach = append(cur.Foreach, c)
		case "pure", "pred", "uninterp":
			m := rePure.FindStringSubmatch(rc.text)
			if m == nil {
				return fail(fmt.Errorf("bad %s declaration %q", first, rc.text))
			}
			pf := &PureFunc{Name: m[4], Pkg: pkg, Ret: m[6], Src: rc.text}
			if m[2] != "" {
				pf.Recv = &SBind{m[2], m[3]}
			}
			if strings.TrimSpace(m[5]) != "" {
				for _, prm := range strings.Split(m[5], ",") {
					fs := strings.Fields(prm)
					if len(fs) != 2 {
						return fail(fmt.Errorf("bad parameter %q", prm))
					}
					pf.Params = append(pf.Params, SBind{fs[0], fs[1]})
				}
			}
			if first != "uninterp" {
				if m[7] == "" {
					return fail(fmt.Errorf("%s needs a body", first))
				}
				e, err := parseSpec(m[7])
				if err != nil {
					return fail(err)
				}
				pf.Body = e
			}
			name := pf.Name
			if pf.Recv != nil {
				name = "." + name
			}
			if _, dup := db.Pures[name]; dup {
				return fail(fmt.Errorf("duplicate spec function %s", name))
			}
			db.Pures[name] = pf
			cur = nil
		case "ghost":
			m := reGhost.FindStringSubmatch(rc.text)
			if m == nil {
				return fail(fmt.Errorf("bad ghost declaration"))
			}
			db.Ghosts[m[1]] = &GhostVar{Name: m[1], Type: m[2], Pkg: pkg}
			cur = nil
		case "lemma":
			m := reLabel.FindStringSubmatch(rest)
			if m == nil {
				return fail(fmt.Errorf("lemma needs a name"))
			}
			e, err := parseSpec(m[2])
			if err != nil {
				return fail(err)
			}
			db.Lemmas = append(db.Lemmas, &Lemma{Name: m[1], Pkg: pkg, Expr: e, Src: m[2]})
			cur = nil
		default:
			return fail(fmt.Errorf("unknown clause %q", first))
		}
	}
	return nil
}

func splitTopComma(s string) []string {
	var out []string
	d := 0
	st := 0
	for i, c := range s {
		switch c {
		case '(', '[':
			d++
		case ')', ']':
			d--
		case ',':
			if d == 0 {
				out = append(out, s[st:i])
				st = i + 1
			}
		}
	}
	return append(out, s[st:])
}

func funcKey(pkg string, ptr bool, recv, name string) string {
	if recv == "" {
		return pkg + "." + name
	}
	if ptr {
		return pkg + ".(*" + recv + ")." + name
	}
	return pkg + ".(" + recv + ")." + name
}

// loadRepoContracts finds verif_contracts*.go under root; the package path is module + dir.
func (db *ContractDB) loadRepoContracts(root, module string) error {
	var files []string
	err := filepath.Walk(root, func(p string, info os.FileInfo, err error) error {
		if err != nil {
			return nil
		}
		if info.IsDir() && (info.Name() == ".git" || info.Name() == "testdata") {
			return filepath.SkipDir
		}
		if !info.IsDir() && strings.HasPrefix(info.Name(), "verif_") && strings.HasSuffix(info.Name(), ".go") {
			files = append(files, p)
		}
		return nil
	})
	if err != nil {
		return err
	}
	sort.Strings(files)
	for _, f := range files {
		rel, _ := filepath.Rel(root, filepath.Dir(f))
		pkg := module
		if rel != "." {
			pkg = module + "/" + filepath.ToSlash(rel)
		}
		if err := db.loadContractFile(f, pkg); err != nil {
			return err
		}
	}
	return nil
}

func (db *ContractDB) loadExtContracts(dir string) error {
	ents, err := os.ReadDir(dir)
	if err != nil {
		return nil
	}
	for _, e := range ents {
		if strings.HasSuffix(e.Name(), ".spec") {
			if err := db.loadContractFile(filepath.Join(dir, e.Name()), ""); err != nil {
				return err
			}
		}
	}
	return nil
}
