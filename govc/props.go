package main

// Property drivers: which functions and lemmas make up each property's proof.

const pkgDst = "github.com/dave/dst"
const pkgDecorator = "github.com/dave/dst/decorator"
const pkgDstutil = "github.com/dave/dst/dstutil"

func buildFuncUnits(p *Program, keys []string, opts map[string]*UnitOpts) ([]*Unit, []UnitError) {
	var units []*Unit
	var errs []UnitError
	for _, k := range keys {
		var o *UnitOpts
		if opts != nil {
			o = opts[k]
		}
		u, err := p.verifyFunc(k, o)
		if err != nil {
			name := shortKey(k)
			if fn := p.fns[k]; fn != nil {
				name = shortFn(fn)
			}
			errs = append(errs, UnitError{name, err.Error()})
			continue
		}
		units = append(units, u)
	}
	return units, errs
}

func init() {
	register(&Property{
		ID:       "C19",
		Title:    "Decoration lists behave as plain ordered lists without aliasing",
		Packages: []string{pkgDst},
		Build: func(p *Program, tier string) ([]*Unit, []UnitError) {
			return buildFuncUnits(p, []string{
				pkgDst + ".(*Decorations).Append",
				pkgDst + ".(*Decorations).Prepend",
				pkgDst + ".(*Decorations).Replace",
				pkgDst + ".(*Decorations).Clear",
				pkgDst + ".(*Decorations).All",
			}, nil)
		},
		Assumptions: []string{
			"caller-side ownership: the argument slice of Append does not share the receiver's backing array (requires owns); Prepend/Replace need no such assumption",
			"append follows the Go specification: in place iff len+n <= cap, otherwise a fresh array with a copy (DESIGN.md 2.3)",
			"'for every sequence of calls' is induction over the five contracts: each re-establishes that the receiver's array is its old array or fresh, never the argument's",
		},
		NotDecided: []string{"that go/printer renders what applyDecorations emits (C04 covers the emission itself)"},
	})
}

func fr(name string) string { return pkgDecorator + ".(*FileRestorer)." + name }

func init() {
	register(&Property{
		ID:       "C05",
		Title:    "Before/After spacing renders by the documented non-additive rule",
		Packages: []string{pkgDecorator},
		Build: func(p *Program, tier string) ([]*Unit, []UnitError) {
			return buildFuncUnits(p, []string{
				fr("applySpace"), fr("applyDecorations"),
				fr("verifLemmaSiblingSpacing"), fr("verifLemmaBadNodeAfter"), fr("verifLemmaCommentThenSpace"),
				fr("verifLemmaAfterOpeningToken"), fr("verifLemmaBeforeClosingToken"),
			}, nil)
		},
		Assumptions: []string{
			"go/format prints a line difference >= 2 between consecutive items as exactly one blank line and 1 as a line break (DESIGN.md 5, assumption 8): the rule is proved on the restorer's line table, not on printed bytes",
			"the lemma harnesses (verif_lemmas.go, build tag verif) are call sequences verified against the callees' contracts only",
			"one carve-out taken from the code and stated in the contract: the extra byte after a file's Start decorations (issue 69)",
		},
		NotDecided: []string{"that NewLine spacing on expression-level nodes makes go/printer split argument lists one element per line (printer behaviour)"},
	})
}
