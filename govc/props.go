package main

// Property drivers: which functions and lemmas make up each property's proof.

const pkgDst = "github.com/dave/dst"
const pkgDecorator = "github.com/dave/dst/decorator"
const pkgDstutil = "github.com/dave/dst/dstutil"

func buildFuncUnits(p *Program, keys []string, opts map[string]*UnitOpts) ([]*Unit, []UnitError) {
	var units []*Unit
	var errs []UnitError
	for _, k := range keys {
		var o *UnitOpts
		if opts != nil {
			o = opts[k]
		}
		u, err := p.verifyFunc(k, o)
		if err != nil {
			name := shortKey(k)
			if fn := p.fns[k]; fn != nil {
				name = shortFn(fn)
			}
			errs = append(errs, UnitError{name, err.Error()})
			continue
		}
		units = append(units, u)
	}
	return units, errs
}

func init() {
	register(&Property{
		ID:       "C19",
		Title:    "Decoration lists behave as plain ordered lists without aliasing",
		Packages: []string{pkgDst},
		Build: func(p *Program, tier string) ([]*Unit, []UnitError) {
			return buildFuncUnits(p, []string{
				pkgDst + ".(*Decorations).Append",
				pkgDst + ".(*Decorations).Prepend",
				pkgDst + ".(*Decorations).Replace",
				pkgDst + ".(*Decorations).Clear",
				pkgDst + ".(*Decorations).All",
			}, nil)
		},
		Assumptions: []string{
			"caller-side ownership: the argument slice of Append does not share the receiver's backing array (requires owns); Prepend/Replace need no such assumption",
			"append follows the Go specification: in place iff len+n <= cap, otherwise a fresh array with a copy (DESIGN.md 2.3)",
			"'for every sequence of calls' is induction over the five contracts: each re-establishes that the receiver's array is its old array or fresh, never the argument's",
		},
		NotDecided: []string{"that go/printer renders what applyDecorations emits (C04 covers the emission itself)"},
	})
}
