package main

import (
	"fmt"
	"go/types"
	"strings"
)

// Property drivers: which functions and lemmas make up each property's proof.

const pkgDst = "github.com/dave/dst"
const pkgDecorator = "github.com/dave/dst/decorator"
const pkgDstutil = "github.com/dave/dst/dstutil"

func buildFuncUnits(p *Program, keys []string, opts map[string]*UnitOpts) ([]*Unit, []UnitError) {
	var units []*Unit
	var errs []UnitError
	for _, k := range keys {
		var o *UnitOpts
		if opts != nil {
			o = opts[k]
		}
		u, err := p.verifyFunc(k, o)
		if err != nil {
			name := shortKey(k)
			if fn := p.fns[k]; fn != nil {
				name = shortFn(fn)
			}
			errs = append(errs, UnitError{name, err.Error()})
			continue
		}
		units = append(units, u)
	}
	return units, errs
}

func init() {
	register(&Property{
		ID:       "C19",
		Title:    "Decoration lists behave as plain ordered lists without aliasing",
		Packages: []string{pkgDst},
		Build: func(p *Program, tier string) ([]*Unit, []UnitError) {
			return buildFuncUnits(p, []string{
				pkgDst + ".(*Decorations).Append",
				pkgDst + ".(*Decorations).Prepend",
				pkgDst + ".(*Decorations).Replace",
				pkgDst + ".(*Decorations).Clear",
				pkgDst + ".(*Decorations).All",
			}, nil)
		},
		Assumptions: []string{
			"caller-side ownership: the argument slice of Append does not share the receiver's backing array (requires owns); Prepend/Replace need no such assumption",
			"append follows the Go specification: in place iff len+n <= cap, otherwise a fresh array with a copy (DESIGN.md 2.3)",
			"'for every sequence of calls' is induction over the five contracts: each re-establishes that the receiver's array is its old array or fresh, never the argument's",
		},
		NotDecided: []string{"that go/printer renders what applyDecorations emits (C04 covers the emission itself)"},
	})
}

func fr(name string) string { return pkgDecorator + ".(*FileRestorer)." + name }

func init() {
	register(&Property{
		ID:       "C05",
		Title:    "Before/After spacing renders by the documented non-additive rule",
		Packages: []string{pkgDecorator},
		Build: func(p *Program, tier string) ([]*Unit, []UnitError) {
			us, es := buildFuncUnits(p, []string{
				fr("applySpace"), fr("applyDecorations"), fr("applyLiteral"),
				fr("verifLemmaSiblingSpacing"), fr("verifLemmaBadNodeAfter"), fr("verifLemmaCommentThenSpace"), fr("verifLemmaBlockCommentThenSpace"),
				fr("verifLemmaAfterOpeningToken"), fr("verifLemmaBeforeClosingToken"),
			}, nil)
			// every node's Before and After reach applySpace, once each, first and last of its rendering
			us2, es2 := restoreUnitsOf(p, tier, false)
			return append(us, us2...), append(es, es2...)
		},
		Select: func(n string) bool {
			return !strings.Contains(n, "restoreNode/") && !strings.Contains(n, "restoreIdent") || reSpaces.MatchString(n)
		},
		Siblings: "C04 (tape), C11 (maps), C12 (position space) for the restoreNode units",
		Assumptions: []string{
			"go/format prints a line difference >= 2 between consecutive items as exactly one blank line and 1 as a line break (DESIGN.md 5, assumption 8): the rule is proved on the restorer's line table, not on printed bytes",
			"the lemma harnesses (verif_lemmas.go, build tag verif) are call sequences verified against the callees' contracts only",
			"one carve-out taken from the code and stated in the contract: the extra byte after a file's Start decorations (issue 69)",
		},
		NotDecided: []string{"that NewLine spacing on expression-level nodes makes go/printer split argument lists one element per line (printer behaviour)"},
	})
}

// ---- C20: Package.save ----

func buildSave(p *Program, tier string) ([]*Unit, []UnitError) {
	key := pkgDecorator + ".(*Package).save"
	opts := &UnitOpts{Trace: true}
	opts.AtExit = func(ex *Exec, frm *frame, g string, st *State, res []Val) {
		name := "save"
		var bufRef string
		var bufGuard string
		var fprint, bytesCall, write *Event
		nBuf, nFprint, nBytes, nWrite := 0, 0, 0, 0
		for i := range ex.trace {
			ev := &ex.trace[i]
			if ev.Depth != 0 {
				continue
			}
			switch {
			case ev.Kind == "alloc" && typeKey(ev.Typ) == "bytes.Buffer":
				nBuf++
				bufRef, bufGuard = ev.Val.T, ev.Guard
			case ev.Kind == "call" && strings.HasSuffix(ev.Callee, ".(*Restorer).Fprint"):
				nFprint++
				fprint = ev
			case ev.Kind == "call" && strings.HasSuffix(ev.Callee, "bytes.(*Buffer).Bytes"):
				nBytes++
				bytesCall = ev
			case ev.Kind == "call" && strings.HasSuffix(ev.Callee, ".callback.writeFile"):
				nWrite++
				write = ev
			}
		}
		structural := func(label string, ok bool, what string) {
			goal := "true"
			if !ok {
				goal = "false"
			}
			o := ex.oblige(name+"#buffer:"+label, "frame", "true", goal, what, "")
			o.Guard = "true"
		}
		// the buffer must be allocated inside the loop that prints (one buffer per file)
		inLoop := false
		if fprint != nil {
			_, back := blockOrder(frm.fn)
			for _, body := range findLoops(frm.fn, back) {
				if body[fprint.Instr.Block()] {
					for i := range ex.trace {
						ev := &ex.trace[i]
						if ev.Depth == 0 && ev.Kind == "alloc" && typeKey(ev.Typ) == "bytes.Buffer" && body[ev.Instr.Block()] {
							inLoop = true
						}
					}
				}
			}
		}
		// the restorer that prints is the one built, outside the loop, for the package's own path and the caller's resolver
		var ctor *Event
		nCtor, ctorInLoop := 0, false
		for i := range ex.trace {
			ev := &ex.trace[i]
			if ev.Depth == 0 && ev.Kind == "call" && strings.HasSuffix(ev.Callee, "decorator.NewRestorerWithImports") {
				nCtor++
				ctor = ev
			}
		}
		if ctor != nil && fprint != nil {
			_, back := blockOrder(frm.fn)
			for _, body := range findLoops(frm.fn, back) {
				if body[ctor.Instr.Block()] {
					ctorInLoop = true
				}
			}
		}
		structural("one_restorer_built_before_the_loop", nCtor == 1 && !ctorInLoop && ctor.Res != nil && len(ctor.Args) == 2,
			fmt.Sprintf("%d NewRestorerWithImports calls in save (inside the loop: %v)", nCtor, ctorInLoop))
		if nCtor == 1 && ctor.Res != nil && len(ctor.Args) == 2 {
			env := &SpecEnv{ex: ex, vars: map[string]Val{"p": frm.params["p"], "resolver": frm.params["resolver"]}, cur: st, old: frm.entry, pkg: frm.fn.Pkg.Pkg}
			ex.obligeSpec(env, name+"#restorer:built_for_the_packages_own_path", "schema", ctor.Guard, "$a == old(p.PkgPath)", map[string]Val{"$a": ctor.Args[0]})
			ex.obligeSpec(env, name+"#restorer:built_with_the_callers_resolver", "schema", ctor.Guard, "$a == resolver", map[string]Val{"$a": ctor.Args[1]})
			if fprint != nil {
				ex.oblige(name+"#restorer:printed_by_that_restorer", "schema", fprint.Guard, eq(fprint.Args[0].T, ctor.Res.T), "Fprint's receiver is the restorer NewRestorerWithImports returned", "")
			}
		}
		structural("buffer_allocated_per_file", inLoop, "the bytes.Buffer is allocated inside the loop over the files")
		structural("one_fresh_buffer_one_print_one_write_per_file", nBuf == 1 && nFprint == 1 && nBytes == 1 && nWrite == 1,
			fmt.Sprintf("per iteration: %d buffer allocations, %d Fprint calls, %d Bytes calls, %d writeFile calls", nBuf, nFprint, nBytes, nWrite))
		if fprint == nil || bytesCall == nil || write == nil || bufRef == "" || bytesCall.Res == nil || fprint.Res == nil {
			return
		}
		_ = bufGuard
		// the buffer printed into is the one allocated in this iteration; the bytes written are its Bytes()
		ex.oblige(name+"#buffer:print_into_fresh_buffer", "schema", fprint.Guard, eq(iRef(fprint.Args[1].T), bufRef), "Fprint's writer is the buffer allocated in this iteration", "")
		ex.oblige(name+"#buffer:bytes_of_that_buffer", "schema", bytesCall.Guard, eq(bytesCall.Args[0].T, bufRef), "Bytes() is taken from the same buffer", "")
		ex.oblige(name+"#buffer:data_is_those_bytes", "schema", write.Guard, eq(write.Args[1].T, bytesCall.Res.T), "the data written is what Bytes() returned", "")
		// a failed print writes nothing: the write happens only when Fprint returned nil
		ex.oblige(name+"#errors:no_write_after_failed_print", "schema", write.Guard, eq(fprint.Res.T, nilIface), "writeFile is reached only if Fprint returned a nil error", "")
	}
	u, err := p.verifyFunc(key, opts)
	if err != nil {
		return nil, []UnitError{{"save", err.Error()}}
	}
	units := []*Unit{u}
	// the constructor save relies on (inlined at its call sites, verified here on its own body)
	if cu, cerr := p.verifyFunc(pkgDecorator+".NewRestorerWithImports", &UnitOpts{}); cerr != nil {
		return units, []UnitError{{"NewRestorerWithImports", cerr.Error()}}
	} else {
		units = append(units, cu)
	}
	// the two public entry points hand their package, the resolver (the caller's, or gopackages' for the package's
	// directory) and ioutil.WriteFile to save, once, and return what save returns
	// (other calls in the wrappers are not forbidden: that they write nothing is not decided here)
	for _, w := range []struct{ fn, name string }{{"Save", "Save"}, {"SaveWithResolver", "SaveWithResolver"}} {
		w := w
		wopts := &UnitOpts{Trace: true}
		wopts.AtExit = func(ex *Exec, frm *frame, g string, st *State, res []Val) {
			var sv, mk *Event
			nCalls, nSave := 0, 0
			for i := range ex.trace {
				ev := &ex.trace[i]
				// at any inlining depth: Save may go through SaveWithResolver
				if ev.Kind != "call" {
					continue
				}
				nCalls++
				switch {
				case strings.HasSuffix(ev.Callee, ".(*Package).save"):
					nSave++
					sv = ev
				case strings.HasSuffix(ev.Callee, "gopackages.New"):
					mk = ev
				}
			}
			structural := func(label string, ok bool, what string) {
				goal := "true"
				if !ok {
					goal = "false"
				}
				o := ex.oblige(w.name+"#entry:"+label, "frame", "true", goal, what, "")
				o.Guard = "true"
			}
			shape := nSave == 1 && sv.Res != nil && len(sv.Args) == 3 && len(res) == 1 && (w.fn != "Save" || (mk != nil && mk.Res != nil && len(mk.Args) == 1))
			structural("one_save_call", shape, fmt.Sprintf("%d calls in %s, %d of them to save", nCalls, w.fn, nSave))
			if !shape {
				return
			}
			wf := funcVals[sv.Args[2].T]
			structural("writes_through_ioutil_WriteFile", wf != nil && wf.String() == "io/ioutil.WriteFile", "the write function handed to save is io/ioutil.WriteFile")
			ex.oblige(w.name+"#entry:saves_the_receiver", "schema", sv.Guard, eq(sv.Args[0].T, frm.params["p"].T), "save's receiver is the package Save was called on", "")
			ex.oblige(w.name+"#entry:returns_what_save_returns", "schema", g, eq(res[0].T, sv.Res.T), "the result is save's result", "")
			if w.fn == "Save" {
				env := &SpecEnv{ex: ex, vars: map[string]Val{"p": frm.params["p"]}, cur: st, old: frm.entry, pkg: frm.fn.Pkg.Pkg}
				ex.obligeSpec(env, w.name+"#entry:resolver_for_the_packages_directory", "schema", mk.Guard, "$a == old(p.Dir)", map[string]Val{"$a": mk.Args[0]})
				ex.oblige(w.name+"#entry:that_resolver_handed_to_save", "schema", sv.Guard, eq(iRef(sv.Args[1].T), mk.Res.T), "save's resolver is the one gopackages.New returned", "")
			} else {
				ex.oblige(w.name+"#entry:callers_resolver_handed_to_save", "schema", sv.Guard, eq(sv.Args[1].T, frm.params["resolver"].T), "save's resolver is the caller's", "")
			}
		}
		wu, werr := p.verifyFunc(pkgDecorator+".(*Package)."+w.fn, wopts)
		if werr != nil {
			return units, []UnitError{{w.name, werr.Error()}}
		}
		units = append(units, wu)
	}
	// the path each file is saved to is the name of the token.File it was parsed into (not a //line-adjusted position)
	dopts := &UnitOpts{Trace: true}
	dopts.AtExit = func(ex *Exec, frm *frame, g string, st *State, res []Val) {
		name := "DecorateNode"
		dv, nv := frm.params["d"], frm.params["n"]
		var fileCall, nameCall, posCall *Event
		var upd []*Event
		for i := range ex.trace {
			ev := &ex.trace[i]
			// at any inlining depth: the bookkeeping may sit in a helper of DecorateNode
			switch {
			case ev.Kind == "call" && strings.HasSuffix(ev.Callee, "FileSet).File"):
				fileCall = ev
			case ev.Kind == "call" && strings.HasSuffix(ev.Callee, "token.File).Name"):
				nameCall = ev
			case ev.Kind == "call" && strings.HasSuffix(ev.Callee, "ast.File).Pos"):
				posCall = ev
			case ev.Kind == "mapupdate":
				if mt, ok := ev.Args[0].Typ.Underlying().(*types.Map); ok && typeKey(mt.Key()) == "*dst.File" {
					upd = append(upd, ev)
				}
			}
		}
		ok := fileCall != nil && nameCall != nil && posCall != nil && len(upd) == 2 && fileCall.Res != nil && nameCall.Res != nil && posCall.Res != nil
		o := ex.oblige(name+"#filenames:recorded_from_the_file_set", "frame", "true", map[bool]string{true: "true", false: "false"}[ok],
			"Filenames is written once for a package's files and once for a single file, the latter from Fset.File(n.Pos()).Name()", "")
		o.Guard = "true"
		if !ok {
			return
		}
		env := &SpecEnv{ex: ex, vars: map[string]Val{"d": dv, "n": nv}, cur: st, old: frm.entry, pkg: frm.fn.Pkg.Pkg}
		_ = env
		single := upd[len(upd)-1]
		ex.oblige(name+"#filenames:file_set_lookup_uses_the_file_position", "schema", fileCall.Guard,
			and(eq(fileCall.Args[1].T, posCall.Res.T), eq(iRef(nv.T), posCall.Args[0].T)), "Fset.File is asked for the position of the file being decorated", "")
		ex.oblige(name+"#filenames:name_of_that_token_file", "schema", nameCall.Guard, eq(nameCall.Args[0].T, fileCall.Res.T), "Name() is taken from the token.File just looked up", "")
		ex.oblige(name+"#filenames:stored_for_the_decorated_file", "schema", single.Guard,
			and(eq(single.Args[2].T, nameCall.Res.T), eq(single.Args[1].T, iRef(res[0].T))), "Filenames[result] is that name", "")
		ex.obligeSpec(env.with(single.St), name+"#filenames:stored_in_the_decorators_table", "schema", single.Guard, "$m == d.Filenames", map[string]Val{"$m": single.Args[0]})
	}
	du, derr := p.verifyFunc(pkgDecorator+".(*Decorator).DecorateNode", dopts)
	if derr != nil {
		return units, []UnitError{{"DecorateNode", derr.Error()}}
	}
	return append(units, du), nil
}

func init() {
	register(&Property{
		ID:       "C20",
		Title:    "Saving a package writes exactly its files, unchanged unless edited",
		Packages: []string{pkgDecorator},
		Build:    buildSave,
		Select: func(n string) bool {
			return !strings.Contains(n, "DecorateNode") || strings.Contains(n, "#filenames:")
		},
		Siblings: "C17 (DecorateNode's error propagation)",
		Assumptions: []string{
			"writeFile is modelled by a ghost log (nwrites, wname, wdata, wperm); Save/SaveWithResolver pass ioutil.WriteFile",
			"assumed: Restorer.Fprint writes the import-managed print of the one file into its writer and nothing on error; bytes.Buffer's zero value is empty and Bytes() returns what was written; printing does not touch Package.Syntax, Package.Decorator or Decorator.Filenames",
		},
		NotDecided: []string{"byte identity for unedited gofmt-canonical sources (that is C08: go/printer)", "Load's use of go/packages and that Decorator.Filenames holds the path each file was loaded from", "the file system"},
	})
}

// ---- C12: RestoreFile ----

func buildRestoreFile(p *Program, tier string) ([]*Unit, []UnitError) {
	key := fr("RestoreFile")
	opts := &UnitOpts{Trace: true}
	opts.AtExit = func(ex *Exec, frm *frame, g string, st *State, res []Val) {
		name := "RestoreFile"
		rv := frm.params["r"]
		envAt := func(s *State) *SpecEnv {
			env := &SpecEnv{ex: ex, vars: map[string]Val{"r": rv}, cur: s, old: frm.entry, pkg: frm.fn.Pkg.Pkg}
			return env
		}
		var addFile, setLines *Event
		addIdx := -1
		nRestoreAfter := 0
		for i := range ex.trace {
			ev := &ex.trace[i]
			if ev.Kind != "call" || ev.Depth != 0 {
				continue
			}
			switch {
			case strings.HasSuffix(ev.Callee, "token.(*FileSet).AddFile"):
				addFile, addIdx = ev, i
			case strings.HasSuffix(ev.Callee, "token.(*File).SetLines"):
				setLines = ev
			case ev.Callee == fr("restoreNode") && addIdx >= 0:
				nRestoreAfter++
				// F9: a node restored after the file was registered gets positions beyond the file
				o := ex.oblige(fmt.Sprintf("%s#positions:no_restore_after_AddFile@%d", name, nRestoreAfter), "frame", "true", "false", "restoreNode is called after Fset.AddFile (Extras): its positions lie beyond the registered file", ex.pos(ev.Instr.Pos()))
				o.Guard = "true"
			}
		}
		// C11: RestoreFile registers nodes for the tree of the file it was given and, with Extras, for the
		// declarations recorded by restored objects — nothing else (no restoreNode call outside those)
		nRestore := 0
		for i := range ex.trace {
			ev := &ex.trace[i]
			if ev.Kind != "call" || ev.Depth != 0 || ev.Callee != fr("restoreNode") {
				continue
			}
			nRestore++
			env := envAt(ev.St)
			env.vars["$n"] = ev.Args[1]
			ex.obligeSpec(env, fmt.Sprintf("%s#maps:restores_the_file_or_a_recorded_declaration@%d", name, nRestore), "schema", ev.Guard,
				"(typeof($n) == type(*dst.File) && ref($n) == r.file) || r.Extras", nil)
		}
		// C18, deferred pass: the Decl / Data link stored into a restored object is the node map's
		// counterpart of the dst node recorded for it (still registered when the link is stored)
		nLink := 0
		for i := range ex.trace {
			ev := &ex.trace[i]
			if ev.Kind != "store" || ev.Depth != 0 || ev.Loc == nil || ev.Loc.Kind != LField || !strings.HasSuffix(ev.Loc.Owner, "ast.Object") {
				continue
			}
			field := strings.Join(ev.Loc.Path, ".")
			if field != "Decl" && field != "Data" {
				continue
			}
			var lr *loopRec
			for _, l := range frm.loops {
				if l.blocks[ev.Instr.Block()] {
					lr = l
				}
			}
			nLink++
			env := ex.specEnv(frm, ev.St, lr)
			env.vars["r"] = rv
			env.vars["$v"] = ev.Val
			ex.obligeSpec(env, fmt.Sprintf("%s#graph:deferred_%s_is_the_map_counterpart@%d", name, strings.ToLower(field), nLink), "schema", ev.Guard,
				"has(r.Ast.Nodes, dn) && r.Ast.Nodes[dn] == $v", nil)
		}
		structural := func(label string, ok bool, what string) {
			goal := "true"
			if !ok {
				goal = "false"
			}
			o := ex.oblige(name+"#"+label, "frame", "true", goal, what, "")
			o.Guard = "true"
		}
		structural("positions:file_registered_once", addFile != nil && setLines != nil, "one AddFile and one SetLines call")
		if addFile == nil || setLines == nil || addFile.Res == nil {
			return
		}
		// the file is registered at the base the cursor started from, with a size covering the final cursor
		env := envAt(addFile.St)
		env.vars["$base"] = addFile.Args[2]
		env.vars["$size"] = addFile.Args[3]
		ex.obligeSpec(env, name+"#positions:registered_at_cursor_base", "schema", addFile.Guard, "$base == r.base && r.base + $size >= r.cursor && r.base <= r.cursor", nil)
		// SetLines accepts the table: the panic is unreachable; the table is not an array that existed before the call
		env2 := envAt(setLines.St)
		env2.vars["$lines"] = setLines.Args[1]
		env2.vars["$file"] = setLines.Args[0]
		ex.obligeSpec(env2, name+"#lines:setlines_accepts", "schema", setLines.Guard, "forall i int :: 0 <= i && i < len($lines) ==> $lines[i] < $file.size && (i > 0 ==> $lines[i-1] < $lines[i])", nil)
		ex.obligeSpec(env2, name+"#lines:table_not_shared_with_earlier_files", "schema", setLines.Guard, "!wasAllocated(arr($lines))", nil)
		ex.obligeSpec(env2, name+"#lines:table_is_restorers", "schema", setLines.Guard, "arr($lines) == arr(r.lines) && len($lines) == len(r.lines) && off($lines) == off(r.lines)", nil)
	}
	u, err := p.verifyFunc(key, opts)
	if err != nil {
		return nil, []UnitError{{"RestoreFile", err.Error()}}
	}
	return []*Unit{u}, nil
}
