package main

// Static write sets: which state keys an instruction (transitively, through inlined callees)
// may modify. Used to havoc at loop headers and to check modifies clauses.

import (
	"fmt"
	"go/types"
	"os"
	"strings"

	"golang.org/x/tools/go/ssa"
)

func (ex *Exec) instrModKeys(fr *frame, in ssa.Instruction, keys map[string]bool, seen map[*ssa.Function]bool) {
	u := ex.u
	switch in := in.(type) {
	case *ssa.Store:
		for _, k := range ex.addrKeys(fr, in.Addr) {
			keys[k] = true
		}
	case *ssa.MapUpdate:
		mk, dk := ex.mapKeys(in.Map.Type().Underlying().(*types.Map))
		keys[mk], keys[dk] = true, true
	case *ssa.Alloc:
		t := deref(in.Type())
		if isStruct(t) {
			keys["next"] = true
		} else if _, ok := t.Underlying().(*types.Array); ok {
			keys["next"] = true
		} else if fr != nil {
			if k, ok := fr.allocKey[in]; ok {
				keys[k] = true
			}
		}
	case *ssa.MakeSlice, *ssa.MakeMap, *ssa.MakeClosure:
		keys["next"] = true
	case *ssa.Next:
		if fr != nil {
			if rs := fr.rangeIt[in.Iter]; rs != nil {
				keys[rs.key] = true
			} else {
				// iterator created before the frame saw it: key by naming convention
				keys[fmt.Sprintf("L!f%d.range.%s", fr.id, in.Iter.Name())] = true
			}
		}
	case *ssa.Call:
		ex.callModKeys(fr, &in.Call, keys, seen)
	case *ssa.Defer:
		// effects happen at RunDefers
	case *ssa.RunDefers:
		for _, b := range in.Parent().Blocks {
			for _, x := range b.Instrs {
				if d, ok := x.(*ssa.Defer); ok {
					ex.callModKeys(fr, &d.Call, keys, seen)
				}
			}
		}
	}
	_ = u
}

func (ex *Exec) callModKeys(fr *frame, c *ssa.CallCommon, keys map[string]bool, seen map[*ssa.Function]bool) {
	u := ex.u
	if b, ok := c.Value.(*ssa.Builtin); ok {
		switch b.Name() {
		case "append":
			et := c.Args[0].Type().Underlying().(*types.Slice).Elem()
			for _, lf := range leaves(et) {
				k := "A$" + elemKey(et)
				if len(lf.Path) > 0 {
					k += "$" + strings.Join(lf.Path, ".")
				}
				u.keySort(k, arr2(sortOf(lf.Typ)))
				keys[k] = true
			}
			keys["next"] = true
		case "copy":
			et := c.Args[0].Type().Underlying().(*types.Slice).Elem()
			k := "A$" + elemKey(et)
			u.keySort(k, arr2(sortOf(et)))
			keys[k] = true
		case "delete":
			_, dk := ex.mapKeys(c.Args[0].Type().Underlying().(*types.Map))
			keys[dk] = true
		}
		return
	}
	if c.IsInvoke() {
		key := ifaceMethodKey(c)
		if fc, ok := ex.db.Funcs[key]; ok {
			ex.contractModKeys(fc, nil, c.Signature(), keys)
			return
		}
		dbgStar(c, 1)
		keys["*"] = true
		return
	}
	callee := c.StaticCallee()
	if callee == nil {
		if mc, ok := c.Value.(*ssa.MakeClosure); ok {
			callee = mc.Fn.(*ssa.Function)
		}
	}
	if callee == nil {
		if fr != nil {
			if key := ex.callbackKey(fr, c.Value); key != "" {
				if fc, ok := ex.db.Funcs[key]; ok {
					ex.contractModKeys(fc, nil, c.Signature(), keys)
					return
				}
			}
		}
		// closure bound to a local (or to a captured local of the enclosing function): the MakeClosure stored there
		if f := ex.closureOfLocal(c.Value); f != nil {
			ex.funcModKeys(f, keys, seen)
			return
		}
		dbgStar(c, 2)
		keys["*"] = true
		return
	}
	// closures among the arguments may be run by the callee
	for _, a := range c.Args {
		if mc := closureOfValue(a); mc != nil {
			ex.closureKeys(fr, mc, keys, seen)
		}
	}
	key := ssaFuncKey(callee)
	if fc, ok := ex.db.Funcs[key]; ok {
		ex.contractModKeys(fc, callee, callee.Signature, keys)
		return
	}
	name := callee.String()
	if _, ok := externalModelNames[name]; ok {
		return
	}
	if (name == "sort.Slice" || name == "sort.SliceStable") && len(c.Args) == 2 {
		// the permutation model (modelSortSlice): the cells of the slice; the closure's keys were added above
		if mi, ok := c.Args[0].(*ssa.MakeInterface); ok {
			if st, ok := mi.X.Type().Underlying().(*types.Slice); ok && !isStruct(st.Elem()) {
				k := "A$" + elemKey(st.Elem())
				u.keySort(k, arr2(sortOf(st.Elem())))
				keys[k] = true
				return
			}
		}
	}
	if strings.HasPrefix(name, "reflect.") || strings.HasPrefix(name, "(reflect.") {
		// the reflect handle model writes the reflective field arrays only
		ex.reflKeys()
		keys[rfHdr], keys[rfVal], keys[rfNode], keys["next"] = true, true, true, true
		return
	}
	if len(callee.Blocks) > 0 && (ex.inRepo(callee) || callee.Parent() != nil) {
		ex.funcModKeys(callee, keys, seen)
		return
	}
	if isPureExternal(strings.TrimPrefix(name, "(*")) || isPureExternal(name) {
		return
	}
	dbgStar(c, 3)
	keys["*"] = true
}

var externalModelNames = map[string]bool{"strings.HasPrefix": true, "strings.Contains": true, "(go/token.Pos).IsValid": true, "strconv.Unquote": true, "strings.Trim": true}

func (ex *Exec) closureOfLocal(v ssa.Value) *ssa.Function {
	u, ok := v.(*ssa.UnOp)
	if !ok {
		return nil
	}
	a, ok := u.X.(*ssa.Alloc)
	if !ok {
		// a captured variable of the enclosing function that holds a closure (conflict inside findAlias)
		fv, isFV := u.X.(*ssa.FreeVar)
		if !isFV || fv.Parent() == nil || fv.Parent().Parent() == nil {
			return nil
		}
		inner, outer := fv.Parent(), fv.Parent().Parent()
		idx := -1
		for i, x := range inner.FreeVars {
			if x == fv {
				idx = i
			}
		}
		for _, b := range outer.Blocks {
			for _, in := range b.Instrs {
				if mc, ok := in.(*ssa.MakeClosure); ok && mc.Fn == ssa.Value(inner) && idx >= 0 && idx < len(mc.Bindings) {
					if pa, ok := mc.Bindings[idx].(*ssa.Alloc); ok {
						a = pa
					}
				}
			}
		}
		if a == nil {
			return nil
		}
	}
	var found *ssa.Function
	for _, r := range *a.Referrers() {
		if st, ok := r.(*ssa.Store); ok && st.Addr == a {
			if mc, ok := st.Val.(*ssa.MakeClosure); ok {
				if found != nil {
					return nil
				}
				found = mc.Fn.(*ssa.Function)
			}
		}
	}
	return found
}

func (ex *Exec) funcModKeys(fn *ssa.Function, keys map[string]bool, seen map[*ssa.Function]bool) {
	if seen[fn] {
		return
	}
	seen[fn] = true
	for _, b := range fn.Blocks {
		for _, in := range b.Instrs {
			// locals of the inlined callee are created fresh by its own frame: skip them
			if st, ok := in.(*ssa.Store); ok {
				if _, isAlloc := st.Addr.(*ssa.Alloc); isAlloc {
					a := st.Addr.(*ssa.Alloc)
					t := deref(a.Type())
					if !isStruct(t) {
						if _, isArr := t.Underlying().(*types.Array); !isArr {
							continue
						}
					}
				}
				// stores through free variables write the enclosing function's cells
			}
			ex.instrModKeys(nil, in, keys, seen)
		}
	}
}

// contractModKeys: coarse (whole-array) keys of a modifies clause, resolved statically.
func (ex *Exec) contractModKeys(fc *FuncContract, callee *ssa.Function, sig *types.Signature, keys map[string]bool) {
	keys["next"] = true
	if !fc.HasMod {
		keys["*"] = true
		return
	}
	env := &SpecEnv{ex: ex, vars: map[string]Val{}, cur: newState(), pkg: ex.pkgByPath(fc.Pkg)}
	// bind parameters to dummies of the right type so that paths resolve
	names := ex.paramNames(fc, callee, sig)
	var ptypes []types.Type
	if sig.Recv() != nil {
		ptypes = append(ptypes, sig.Recv().Type())
	}
	for i := 0; i < sig.Params().Len(); i++ {
		ptypes = append(ptypes, sig.Params().At(i).Type())
	}
	for i, n := range names {
		if i < len(ptypes) && !isStruct(ptypes[i]) {
			env.vars[n] = Val{T: "dummy!" + n, Typ: ptypes[i]}
		}
	}
	for _, it := range fc.Modifies {
		if strings.TrimSpace(it) == "newobjects" {
			keys["*new"] = true
			continue
		}
		if aks, ok := ex.allButKeys(it, env); ok {
			for _, k := range aks {
				keys[k] = true
			}
			continue
		}
		ks, _ := ex.modItem(it, env)
		for _, k := range ks {
			keys[k] = true
		}
	}
}

// addrKeys: state keys a store through addr may hit.
func (ex *Exec) addrKeys(fr *frame, addr ssa.Value) []string {
	u := ex.u
	switch a := addr.(type) {
	case *ssa.Alloc:
		t := deref(a.Type())
		if isStruct(t) {
			return ex.leafKeys(t, ex.regOwner(t), nil)
		}
		if fr != nil {
			if k, ok := fr.allocKey[a]; ok {
				return []string{k}
			}
			// not yet executed (allocated inside the loop): created fresh on each iteration
			return nil
		}
		return nil
	case *ssa.FreeVar:
		// a captured cell of the enclosing function
		if fr != nil {
			if v, ok := fr.regs[a]; ok && v.Loc != nil && v.Loc.Kind == LLocal {
				return []string{v.Loc.Key}
			}
		}
		return []string{"*freevar:" + a.Name()}
	case *ssa.Global:
		return []string{"GV$" + a.Pkg.Pkg.Path() + "." + a.Name()}
	case *ssa.FieldAddr:
		// walk to the root pointer
		var path []string
		cur := ssa.Value(a)
		for {
			fa, ok := cur.(*ssa.FieldAddr)
			if !ok {
				break
			}
			st := deref(fa.X.Type())
			path = append([]string{st.Underlying().(*types.Struct).Field(fa.Field).Name()}, path...)
			cur = fa.X
		}
		rootT := deref(cur.Type())
		if ia, ok := cur.(*ssa.IndexAddr); ok {
			// field of a slice element
			var et types.Type
			switch xt := ia.X.Type().Underlying().(type) {
			case *types.Slice:
				et = xt.Elem()
			case *types.Pointer:
				et = xt.Elem().Underlying().(*types.Array).Elem()
			}
			var ks []string
			t := et
			for _, p := range path {
				t, _ = fieldType(t, p)
			}
			for _, lf := range leaves(t) {
				full := append(append([]string{}, path...), lf.Path...)
				k := "A$" + elemKey(et) + "$" + strings.Join(full, ".")
				u.keySort(k, arr2(sortOf(lf.Typ)))
				ks = append(ks, k)
			}
			return ks
		}
		return ex.leafKeys(rootT, ex.regOwner(rootT), path)
	case *ssa.IndexAddr:
		var et types.Type
		switch xt := a.X.Type().Underlying().(type) {
		case *types.Slice:
			et = xt.Elem()
		case *types.Pointer:
			et = xt.Elem().Underlying().(*types.Array).Elem()
		}
		var ks []string
		for _, lf := range leaves(et) {
			k := "A$" + elemKey(et)
			if len(lf.Path) > 0 {
				k += "$" + strings.Join(lf.Path, ".")
			}
			u.keySort(k, arr2(sortOf(lf.Typ)))
			ks = append(ks, k)
		}
		return ks
	}
	// store through an arbitrary pointer value
	t := deref(addr.Type())
	if t == nil {
		return []string{"*"}
	}
	if isStruct(t) {
		return ex.leafKeys(t, ex.regOwner(t), nil)
	}
	k := "C$" + elemKey(t)
	u.keySort(k, arr1(sortOf(t)))
	return []string{k}
}

// closureOfValue: the MakeClosure a value is (a conversion or boxing of), if any.
func closureOfValue(v ssa.Value) *ssa.MakeClosure {
	for i := 0; i < 6; i++ {
		switch x := v.(type) {
		case *ssa.MakeClosure:
			return x
		case *ssa.ChangeType:
			v = x.X
		case *ssa.MakeInterface:
			v = x.X
		case *ssa.Convert:
			v = x.X
		default:
			return nil
		}
	}
	return nil
}

// closureKeys: the write set of a closure, with its free variables resolved to the creating frame's cells.
func (ex *Exec) closureKeys(fr *frame, mc *ssa.MakeClosure, keys map[string]bool, seen map[*ssa.Function]bool) {
	fn := mc.Fn.(*ssa.Function)
	tmp := map[string]bool{}
	ex.funcModKeys(fn, tmp, map[*ssa.Function]bool{})
	for k := range tmp {
		if !strings.HasPrefix(k, "*freevar:") {
			keys[k] = true
			continue
		}
		name := strings.TrimPrefix(k, "*freevar:")
		resolved := false
		for i, fv := range fn.FreeVars {
			if fv.Name() != name || i >= len(mc.Bindings) {
				continue
			}
			switch b := mc.Bindings[i].(type) {
			case *ssa.Alloc:
				if fr != nil {
					if key, ok := fr.allocKey[b]; ok {
						keys[key] = true
						resolved = true
					}
				}
			case *ssa.FreeVar:
				if fr != nil {
					if v, ok := fr.regs[b]; ok && v.Loc != nil && v.Loc.Kind == LLocal {
						keys[v.Loc.Key] = true
						resolved = true
					}
				}
			}
		}
		if !resolved {
			keys["*"] = true
		}
	}
}

func dbgStar(c *ssa.CallCommon, n int) {
	if os.Getenv("GOVC_DEBUG_HAVOC") != "" {
		fmt.Fprintf(os.Stderr, "modkeys * (%d) from call %s\n", n, c.String())
	}
}
