package main

// C16 (narrow): lock discipline on the one shareable object, read-only shared tables.
// The obligations are ownership conditions decided on the SSA of every function that can touch
// the shared state; interleavings themselves are not explored (data-race-free => each call behaves as if alone).

import (
	"fmt"
	"go/types"
	"sort"
	"strings"

	"golang.org/x/tools/go/ssa"
)

const pkgGoast = "github.com/dave/dst/decorator/resolver/goast"
const pkgGuess = "github.com/dave/dst/decorator/resolver/guess"
const pkgSimple = "github.com/dave/dst/decorator/resolver/simple"

// heldAt: is the mutex field `mu` of receiver held when instruction in executes? True if a call
// recv.mu.Lock() in the same function dominates it and the function defers recv.mu.Unlock()
// (no explicit Unlock before), or the function is a closure created (and only called) inside such a region.
func heldAt(in ssa.Instruction, mu string, seen map[*ssa.Function]bool) bool {
	fn := in.Parent()
	var lock *ssa.Call
	deferred := false
	explicitUnlock := false
	for _, b := range fn.Blocks {
		for _, x := range b.Instrs {
			switch c := x.(type) {
			case *ssa.Call:
				if isMutexCall(&c.Call, mu, "Lock") {
					lock = c
				}
				if isMutexCall(&c.Call, mu, "Unlock") {
					explicitUnlock = true
				}
			case *ssa.Defer:
				if isMutexCall(&c.Call, mu, "Unlock") {
					deferred = true
				}
			}
		}
	}
	if lock != nil && deferred && !explicitUnlock {
		if lock.Block() == in.Block() {
			for _, x := range in.Block().Instrs {
				if x == ssa.Instruction(lock) {
					return true
				}
				if x == in {
					return false
				}
			}
		}
		return lock.Block().Dominates(in.Block())
	}
	// a closure: held if its MakeClosure sits in a held region of the parent and the closure value
	// only flows into calls made there (synchronous callbacks such as ast.Inspect)
	if fn.Parent() != nil && !seen[fn] {
		seen[fn] = true
		for _, b := range fn.Parent().Blocks {
			for _, x := range b.Instrs {
				if mc, ok := x.(*ssa.MakeClosure); ok && mc.Fn == fn {
					if !heldAt(mc, mu, seen) {
						return false
					}
					for _, r := range *mc.Referrers() {
						switch rr := r.(type) {
						case *ssa.Call:
							if !heldAt(rr, mu, seen) {
								return false
							}
						case *ssa.DebugRef:
						case *ssa.Store:
							// stored to a local and called later: accept only if every load's call is held
							if a, ok := rr.Addr.(*ssa.Alloc); ok {
								for _, ar := range *a.Referrers() {
									if ld, ok := ar.(*ssa.UnOp); ok {
										for _, lr := range *ld.Referrers() {
											if c, ok := lr.(ssa.Instruction); ok {
												if _, isDbg := c.(*ssa.DebugRef); isDbg {
													continue
												}
												if !heldAt(c, mu, seen) {
													return false
												}
											}
										}
									}
								}
							} else {
								return false
							}
						default:
							return false
						}
					}
					return true
				}
			}
		}
	}
	return false
}

func isMutexCall(c *ssa.CallCommon, mu, method string) bool {
	callee := c.StaticCallee()
	if callee == nil || callee.Name() != method {
		return false
	}
	if !strings.Contains(callee.String(), "sync.") {
		return false
	}
	if len(c.Args) == 0 {
		return false
	}
	fa, ok := c.Args[0].(*ssa.FieldAddr)
	if !ok {
		return false
	}
	st := deref(fa.X.Type())
	return st != nil && st.Underlying().(*types.Struct).Field(fa.Field).Name() == mu
}

func allFuncs(p *Program, pkgPath string) []*ssa.Function {
	var out []*ssa.Function
	var add func(f *ssa.Function)
	add = func(f *ssa.Function) {
		out = append(out, f)
		for _, a := range f.AnonFuncs {
			add(a)
		}
	}
	var keys []string
	for k, f := range p.fns {
		if f.Pkg != nil && f.Pkg.Pkg.Path() == pkgPath && f.Parent() == nil {
			keys = append(keys, k)
		}
	}
	sort.Strings(keys)
	for _, k := range keys {
		add(p.fns[k])
	}
	return out
}

func buildC16(p *Program, tier string) ([]*Unit, []UnitError) {
	ex := p.newExec("lock-discipline")
	unit := ex.unit
	check := func(name string, ok bool, what, where string) {
		goal := "true"
		if !ok {
			goal = "false"
		}
		o := ex.oblige(name, "frame", "true", goal, what, where)
		o.Guard = "true"
	}
	// 1. lock discipline on shared types
	for _, sh := range p.db.Shared {
		counts := map[string]int{}
		for _, fn := range allFuncs(p, sh.Pkg) {
			unit.addFunc(fn.String())
			for _, b := range fn.Blocks {
				for _, in := range b.Instrs {
					fa, ok := in.(*ssa.FieldAddr)
					if !ok {
						continue
					}
					st := deref(fa.X.Type())
					nt, isNamed := st.(*types.Named)
					if !isNamed || nt.Obj().Name() != sh.Name {
						continue
					}
					field := st.Underlying().(*types.Struct).Field(fa.Field).Name()
					mu, guarded := sh.Guarded[field]
					if !guarded {
						continue
					}
					// a composite literal initialising a fresh object is not shared yet
					if _, isAlloc := fa.X.(*ssa.Alloc); isAlloc {
						continue
					}
					for _, r := range *fa.Referrers() {
						var kind string
						switch rr := r.(type) {
						case *ssa.Store:
							kind = "write"
						case *ssa.UnOp:
							kind = "read"
							// the loaded value (a map): every use must be under the lock too, and it may be returned only to readers
							for _, ur := range *rr.Referrers() {
								ui, ok := ur.(ssa.Instruction)
								if !ok {
									continue
								}
								switch ui.(type) {
								case *ssa.MapUpdate, *ssa.Lookup, *ssa.Range:
									counts[field+".mapop"]++
									check(fmt.Sprintf("%s.%s#lock:map_use_of_%s_under_%s@%d", sh.Name, shortFn(fn), field, mu, counts[field+".mapop"]),
										heldAt(ui, mu, map[*ssa.Function]bool{}), "a map loaded from guarded field "+field+" is used only while "+mu+" is held", ex.pos(ui.Pos()))
								}
							}
						case *ssa.DebugRef:
							continue
						default:
							kind = "escape"
						}
						counts[field+"."+kind]++
						ok := kind != "escape" && heldAt(r, mu, map[*ssa.Function]bool{})
						check(fmt.Sprintf("%s.%s#lock:%s_of_%s_under_%s@%d", sh.Name, shortFn(fn), kind, field, mu, counts[field+"."+kind]), ok,
							fmt.Sprintf("%s of guarded field %s happens while %s is held", kind, field, mu), ex.pos(r.Pos()))
					}
				}
			}
		}
		// maps returned from a method that reads guarded state are only read by callers in the package
		for _, fn := range allFuncs(p, sh.Pkg) {
			for _, b := range fn.Blocks {
				for _, in := range b.Instrs {
					mu, ok := in.(*ssa.MapUpdate)
					if !ok {
						continue
					}
					// the updated map must be a fresh local map (made in this function) or guarded state under its lock
					fresh := false
					switch m := mu.Map.(type) {
					case *ssa.MakeMap:
						fresh = true
					case *ssa.UnOp:
						if a, ok := m.X.(*ssa.Alloc); ok {
							fresh = true
							for _, r := range *a.Referrers() {
								if st, ok := r.(*ssa.Store); ok && st.Addr == a {
									if _, isMake := st.Val.(*ssa.MakeMap); !isMake {
										fresh = false
									}
								}
							}
						} else if fv, ok := m.X.(*ssa.FreeVar); ok {
							_ = fv
							fresh = true // captured local of the enclosing function (checked there)
						} else if fa, ok := m.X.(*ssa.FieldAddr); ok {
							st := deref(fa.X.Type())
							field := st.Underlying().(*types.Struct).Field(fa.Field).Name()
							if g, ok := sh.Guarded[field]; ok {
								fresh = heldAt(mu, g, map[*ssa.Function]bool{})
							}
						}
					}
					counts["mapupdate"]++
					check(fmt.Sprintf("%s.%s#lock:map_update_target@%d", sh.Name, shortFn(fn), counts["mapupdate"]), fresh,
						"maps are updated only while local to the function or as guarded state under the lock (a published map is never updated)", ex.pos(mu.Pos()))
				}
			}
		}
	}
	// 2. read-only shared tables
	n := 0
	for _, pkgPath := range []string{pkgDecorator, pkgGuess, pkgSimple} {
		for _, fn := range allFuncs(p, pkgPath) {
			if fn.Name() == "init" {
				continue
			}
			for _, b := range fn.Blocks {
				for _, in := range b.Instrs {
					switch x := in.(type) {
					case *ssa.Store:
						if g, ok := x.Addr.(*ssa.Global); ok && g.Pkg.Pkg.Path() == pkgDecorator {
							n++
							check(fmt.Sprintf("decorator#readonly:no_store_to_global_%s@%d", g.Name(), n), false, "package-level variable "+g.Name()+" is written outside init", ex.pos(x.Pos()))
						}
					case *ssa.MapUpdate:
						writesShared := false
						if ld, ok := x.Map.(*ssa.UnOp); ok {
							if _, ok := ld.X.(*ssa.Global); ok {
								writesShared = true
							}
						}
						if pkgPath != pkgDecorator {
							// resolvers: the receiver is the map itself
							if prm := rootParam(x.Map); prm != nil && len(fn.Params) > 0 && prm == fn.Params[0] && fn.Signature.Recv() != nil {
								writesShared = true
							}
						}
						if writesShared {
							n++
							check(fmt.Sprintf("%s#readonly:no_update_of_shared_map@%d", shortFn(fn), n), false, "a shared read-only table is updated", ex.pos(x.Pos()))
						}
					}
				}
			}
		}
	}
	check("decorator#readonly:scan_completed", true, fmt.Sprintf("scanned packages decorator, guess, simple: %d writes to shared tables found", n), "")
	return []*Unit{unit}, nil
}

func init() {
	register(&Property{
		ID:       "C16",
		Title:    "Concurrent use of separate decorators/restorers is race-free and deterministic",
		Packages: []string{pkgDecorator, pkgGoast, pkgGuess, pkgSimple},
		Build:    buildC16,
		Assumptions: []string{
			"narrow claim: lock discipline and ownership on the one object the statement allows to be shared (goast.DecoratorResolver) and on read-only tables; no interleaving is explored",
			"data-race freedom of everything each goroutine owns privately is assumed; token.FileSet is internally synchronised; a data-race-free program behaves as if each call ran alone (Go memory model)",
			"callbacks passed to ast.Inspect are called synchronously inside the region where the closure was created",
		},
		NotDecided: []string{"determinism under map iteration order (the range-over-map loops of updateImports): not yet under contract", "which error is returned when two resolver calls would both fail"},
	})
}

// rootParam: the parameter a value is (a conversion or spilled copy of), if any.
func rootParam(v ssa.Value) *ssa.Parameter {
	for i := 0; i < 8; i++ {
		switch x := v.(type) {
		case *ssa.Parameter:
			return x
		case *ssa.ChangeType:
			v = x.X
		case *ssa.UnOp:
			a, ok := x.X.(*ssa.Alloc)
			if !ok {
				return nil
			}
			var src ssa.Value
			n := 0
			for _, r := range *a.Referrers() {
				if st, ok := r.(*ssa.Store); ok && st.Addr == a {
					src = st.Val
					n++
				}
			}
			if n != 1 {
				return nil
			}
			v = src
		default:
			return nil
		}
	}
	return nil
}
