package main

// C16 (narrow): lock discipline on the one shareable object, read-only shared tables.
// The obligations are ownership conditions decided on the SSA of every function that can touch
// the shared state; interleavings themselves are not explored (data-race-free => each call behaves as if alone).

import (
	"fmt"
	"go/types"
	"sort"
	"strings"

	"golang.org/x/tools/go/ssa"
)

const pkgGoast = "github.com/dave/dst/decorator/resolver/goast"
const pkgGuess = "github.com/dave/dst/decorator/resolver/guess"
const pkgSimple = "github.com/dave/dst/decorator/resolver/simple"

// heldAt: is the mutex field `mu` of receiver held when instruction in executes? True if a call
// recv.mu.Lock() in the same function dominates it and the function defers recv.mu.Unlock()
// (no explicit Unlock before), or the function is a closure created (and only called) inside such a region.
func heldAt(in ssa.Instruction, mu string, seen map[*ssa.Function]bool) bool {
	fn := in.Parent()
	var lock *ssa.Call
	deferred := false
	explicitUnlock := false
	for _, b := range fn.Blocks {
		for _, x := range b.Instrs {
			switch c := x.(type) {
			case *ssa.Call:
				if isMutexCall(&c.Call, mu, "Lock") {
					lock = c
				}
				if isMutexCall(&c.Call, mu, "Unlock") {
					explicitUnlock = true
				}
			case *ssa.Defer:
				if isMutexCall(&c.Call, mu, "Unlock") {
					deferred = true
				}
			}
		}
	}
	if lock != nil && deferred && !explicitUnlock {
		if lock.Block() == in.Block() {
			for _, x := range in.Block().Instrs {
				if x == ssa.Instruction(lock) {
					return true
				}
				if x == in {
					return false
				}
			}
		}
		return lock.Block().Dominates(in.Block())
	}
	// a closure: held if its MakeClosure sits in a held region of the parent and the closure value
	// only flows into calls made there (synchronous callbacks such as ast.Inspect)
	if fn.Parent() != nil && !seen[fn] {
		seen[fn] = true
		for _, b := range fn.Parent().Blocks {
			for _, x := range b.Instrs {
				if mc, ok := x.(*ssa.MakeClosure); ok && mc.Fn == fn {
					if !heldAt(mc, mu, seen) {
						return false
					}
					for _, r := range *mc.Referrers() {
						switch rr := r.(type) {
						case *ssa.Call:
							if !heldAt(rr, mu, seen) {
								return false
							}
						case *ssa.DebugRef:
						case *ssa.Store:
							// stored to a local and called later: accept only if every load's call is held
							if a, ok := rr.Addr.(*ssa.Alloc); ok {
								for _, ar := range *a.Referrers() {
									if ld, ok := ar.(*ssa.UnOp); ok {
										for _, lr := range *ld.Referrers() {
											if c, ok := lr.(ssa.Instruction); ok {
												if _, isDbg := c.(*ssa.DebugRef); isDbg {
													continue
												}
												if !heldAt(c, mu, seen) {
													return false
												}
											}
										}
									}
								}
							} else {
								return false
							}
						default:
							return false
						}
					}
					return true
				}
			}
		}
	}
	return false
}

func isMutexCall(c *ssa.CallCommon, mu, method string) bool {
	callee := c.StaticCallee()
	if callee == nil || callee.Name() != method {
		return false
	}
	if !strings.Contains(callee.String(), "sync.") {
		return false
	}
	if len(c.Args) == 0 {
		return false
	}
	fa, ok := c.Args[0].(*ssa.FieldAddr)
	if !ok {
		return false
	}
	st := deref(fa.X.Type())
	return st != nil && st.Underlying().(*types.Struct).Field(fa.Field).Name() == mu
}

func allFuncs(p *Program, pkgPath string) []*ssa.Function {
	var out []*ssa.Function
	var add func(f *ssa.Function)
	add = func(f *ssa.Function) {
		out = append(out, f)
		for _, a := range f.AnonFuncs {
			add(a)
		}
	}
	var keys []string
	for k, f := range p.fns {
		if f.Pkg != nil && f.Pkg.Pkg.Path() == pkgPath && f.Parent() == nil {
			keys = append(keys, k)
		}
	}
	sort.Strings(keys)
	for _, k := range keys {
		add(p.fns[k])
	}
	return out
}

func buildC16(p *Program, tier string) ([]*Unit, []UnitError) {
	ex := p.newExec("lock-discipline")
	unit := ex.unit
	check := func(name string, ok bool, what, where string) {
		goal := "true"
		if !ok {
			goal = "false"
		}
		o := ex.oblige(name, "frame", "true", goal, what, where)
		o.Guard = "true"
	}
	// 1. lock discipline on shared types
	for _, sh := range p.db.Shared {
		counts := map[string]int{}
		for _, fn := range allFuncs(p, sh.Pkg) {
			unit.addFunc(fn.String())
			for _, b := range fn.Blocks {
				for _, in := range b.Instrs {
					fa, ok := in.(*ssa.FieldAddr)
					if !ok {
						continue
					}
					st := deref(fa.X.Type())
					nt, isNamed := st.(*types.Named)
					if !isNamed || nt.Obj().Name() != sh.Name {
						continue
					}
					field := st.Underlying().(*types.Struct).Field(fa.Field).Name()
					mu, guarded := sh.Guarded[field]
					if !guarded {
						continue
					}
					// a composite literal initialising a fresh object is not shared yet
					if _, isAlloc := fa.X.(*ssa.Alloc); isAlloc {
						continue
					}
					for _, r := range *fa.Referrers() {
						var kind string
						switch rr := r.(type) {
						case *ssa.Store:
							kind = "write"
						case *ssa.UnOp:
							kind = "read"
							// the loaded value (a map): every use must be under the lock too, and it may be returned only to readers
							for _, ur := range *rr.Referrers() {
								ui, ok := ur.(ssa.Instruction)
								if !ok {
									continue
								}
								switch ui.(type) {
								case *ssa.MapUpdate, *ssa.Lookup, *ssa.Range:
									counts[field+".mapop"]++
									check(fmt.Sprintf("%s.%s#lock:map_use_of_%s_under_%s@%d", sh.Name, shortFn(fn), field, mu, counts[field+".mapop"]),
										heldAt(ui, mu, map[*ssa.Function]bool{}), "a map loaded from guarded field "+field+" is used only while "+mu+" is held", ex.pos(ui.Pos()))
								}
							}
						case *ssa.DebugRef:
							continue
						default:
							kind = "escape"
						}
						counts[field+"."+kind]++
						ok := kind != "escape" && heldAt(r, mu, map[*ssa.Function]bool{})
						check(fmt.Sprintf("%s.%s#lock:%s_of_%s_under_%s@%d", sh.Name, shortFn(fn), kind, field, mu, counts[field+"."+kind]), ok,
							fmt.Sprintf("%s of guarded field %s happens while %s is held", kind, field, mu), ex.pos(r.Pos()))
					}
				}
			}
		}
		// maps returned from a method that reads guarded state are only read by callers in the package
		for _, fn := range allFuncs(p, sh.Pkg) {
			for _, b := range fn.Blocks {
				for _, in := range b.Instrs {
					mu, ok := in.(*ssa.MapUpdate)
					if !ok {
						continue
					}
					// the updated map must be a fresh local map (made in this function) or guarded state under its lock
					fresh := false
					switch m := mu.Map.(type) {
					case *ssa.MakeMap:
						fresh = true
					case *ssa.UnOp:
						if a, ok := m.X.(*ssa.Alloc); ok {
							fresh = true
							for _, r := range *a.Referrers() {
								if st, ok := r.(*ssa.Store); ok && st.Addr == a {
									if _, isMake := st.Val.(*ssa.MakeMap); !isMake {
										fresh = false
									}
								}
							}
						} else if fv, ok := m.X.(*ssa.FreeVar); ok {
							_ = fv
							fresh = true // captured local of the enclosing function (checked there)
						} else if fa, ok := m.X.(*ssa.FieldAddr); ok {
							st := deref(fa.X.Type())
							field := st.Underlying().(*types.Struct).Field(fa.Field).Name()
							if g, ok := sh.Guarded[field]; ok {
								fresh = heldAt(mu, g, map[*ssa.Function]bool{})
							}
						}
					}
					counts["mapupdate"]++
					check(fmt.Sprintf("%s.%s#lock:map_update_target@%d", sh.Name, shortFn(fn), counts["mapupdate"]), fresh,
						"maps are updated only while local to the function or as guarded state under the lock (a published map is never updated)", ex.pos(mu.Pos()))
				}
			}
		}
	}
	// 2. read-only shared tables
	n := 0
	for _, pkgPath := range []string{pkgDecorator, pkgGuess, pkgSimple} {
		for _, fn := range allFuncs(p, pkgPath) {
			if fn.Name() == "init" {
				continue
			}
			for _, b := range fn.Blocks {
				for _, in := range b.Instrs {
					switch x := in.(type) {
					case *ssa.Store:
						if g, ok := x.Addr.(*ssa.Global); ok && g.Pkg.Pkg.Path() == pkgDecorator {
							n++
							check(fmt.Sprintf("decorator#readonly:no_store_to_global_%s@%d", g.Name(), n), false, "package-level variable "+g.Name()+" is written outside init", ex.pos(x.Pos()))
						}
					case *ssa.MapUpdate:
						writesShared := false
						if ld, ok := x.Map.(*ssa.UnOp); ok {
							if _, ok := ld.X.(*ssa.Global); ok {
								writesShared = true
							}
						}
						if pkgPath != pkgDecorator {
							// resolvers: the receiver is the map itself
							if prm := rootParam(x.Map); prm != nil && len(fn.Params) > 0 && prm == fn.Params[0] && fn.Signature.Recv() != nil {
								writesShared = true
							}
						}
						if writesShared {
							n++
							check(fmt.Sprintf("%s#readonly:no_update_of_shared_map@%d", shortFn(fn), n), false, "a shared read-only table is updated", ex.pos(x.Pos()))
						}
					}
				}
			}
		}
	}
	// 3. map iteration order must not reach the output: a slice that is filled inside a range-over-map
	// loop is sorted (sort.Slice / sort.Strings / sort.Sort) before anything else reads it, on every path.
	nm := 0
	lemmaKeys := map[string]bool{}
	for _, pkgPath := range []string{pkgDecorator, pkgDst, pkgDstutil} {
		for _, fn := range allFuncs(p, pkgPath) {
			for _, fill := range mapFilledSlices(fn) {
				nm++
				ok, why, sorts := sortedBeforeUseCalls(fn, fill)
				check(fmt.Sprintf("%s#order:map_filled_slice_sorted_before_use:%s", shortFn(fn), fill.name), ok, why, ex.pos(fill.alloc.Pos()))
				// the sort decides the order only if the comparison is a strict total order: it must be the built-in
				// order or a named function whose order laws are lemmas under contract (added to this property's units)
				for k, sc := range sorts {
					cmp, reason := comparatorOf(sc)
					okc := cmp == "builtin"
					what := "sorted by the built-in order"
					if !okc && cmp != "" {
						if ls, has := comparatorLemmas[cmp]; has {
							okc = true
							what = "sorted by " + shortKey(cmp) + ", whose order laws are the lemmas " + shortKey(ls[0]) + " ... under contract"
							for _, l := range ls {
								lemmaKeys[l] = true
							}
						} else {
							what = "sorted by " + cmp + ", for which no order lemmas are under contract"
						}
					} else if !okc {
						what = reason
					}
					check(fmt.Sprintf("%s#order:comparison_is_a_proved_total_order:%s@%d", shortFn(fn), fill.name, k+1), okc, what, ex.pos(sc.Pos()))
				}
			}
		}
	}
	check("decorator#order:scan_completed", nm > 0, fmt.Sprintf("%d slices filled from map iteration found", nm), "")
	check("decorator#readonly:scan_completed", true, fmt.Sprintf("scanned packages decorator, guess, simple: %d writes to shared tables found", n), "")
	var lks []string
	for k := range lemmaKeys {
		lks = append(lks, k)
	}
	sort.Strings(lks)
	us, es := buildFuncUnits(p, lks, nil)
	return append([]*Unit{unit}, us...), es
}

func init() {
	register(&Property{
		ID:       "C16",
		Title:    "Concurrent use of separate decorators/restorers is race-free and deterministic",
		Packages: []string{pkgDecorator, pkgGoast, pkgGuess, pkgSimple, pkgDstutil, pkgDst},
		Build:    buildC16,
		Assumptions: []string{
			"narrow claim: lock discipline and ownership on the one object the statement allows to be shared (goast.DecoratorResolver) and on read-only tables; no interleaving is explored",
			"data-race freedom of everything each goroutine owns privately is assumed; token.FileSet is internally synchronised; a data-race-free program behaves as if each call ran alone (Go memory model)",
			"callbacks passed to ast.Inspect are called synchronously inside the region where the closure was created",
		},
		NotDecided: []string{"determinism under map iteration order beyond the one structural rule (a slice filled from a map is sorted by a dominating sort call before it is read; the comparison of that sort is the built-in order or a function whose strict-total-order lemmas are discharged here): the map loops of updateImports that write maps (effectiveAlias, resolved, packageNames) are not proved order-independent", "which error is returned when two resolver calls would both fail"},
	})
}

// rootParam: the parameter a value is (a conversion or spilled copy of), if any.
func rootParam(v ssa.Value) *ssa.Parameter {
	for i := 0; i < 8; i++ {
		switch x := v.(type) {
		case *ssa.Parameter:
			return x
		case *ssa.ChangeType:
			v = x.X
		case *ssa.UnOp:
			a, ok := x.X.(*ssa.Alloc)
			if !ok {
				return nil
			}
			var src ssa.Value
			n := 0
			for _, r := range *a.Referrers() {
				if st, ok := r.(*ssa.Store); ok && st.Addr == a {
					src = st.Val
					n++
				}
			}
			if n != 1 {
				return nil
			}
			v = src
		default:
			return nil
		}
	}
	return nil
}

// ---- slices filled from map iteration ----

type mapFill struct {
	alloc *ssa.Alloc // the slice-typed local
	name  string
	loop  map[*ssa.BasicBlock]bool // blocks of the range-over-map loop(s) that fill it
}

// mapFilledSlices: slice-typed named locals that receive elements (indexed store or append) inside
// the body of a loop that ranges over a map.
func mapFilledSlices(fn *ssa.Function) []mapFill {
	if len(fn.Blocks) == 0 {
		return nil
	}
	_, back := blockOrder(fn)
	loops := findLoops(fn, back)
	found := map[*ssa.Alloc]*mapFill{}
	for h, body := range loops {
		isMapRange := false
		for _, in := range h.Instrs {
			if nx, ok := in.(*ssa.Next); ok {
				if rg, ok := nx.Iter.(*ssa.Range); ok {
					if _, ok := rg.X.Type().Underlying().(*types.Map); ok {
						isMapRange = true
					}
				}
			}
		}
		if !isMapRange {
			continue
		}
		for b := range body {
			for _, in := range b.Instrs {
				st, ok := in.(*ssa.Store)
				if !ok {
					continue
				}
				var target *ssa.Alloc
				// s[i] = v
				if ia, ok := st.Addr.(*ssa.IndexAddr); ok {
					if ld, ok := ia.X.(*ssa.UnOp); ok {
						if a, ok := ld.X.(*ssa.Alloc); ok {
							target = a
						}
					}
				}
				// s = append(s, v)
				if a, ok := st.Addr.(*ssa.Alloc); ok {
					if c, ok := st.Val.(*ssa.Call); ok {
						if bi, ok := c.Call.Value.(*ssa.Builtin); ok && bi.Name() == "append" {
							target = a
						}
					}
				}
				if target == nil {
					continue
				}
				if _, ok := deref(target.Type()).Underlying().(*types.Slice); !ok {
					continue
				}
				mf := found[target]
				if mf == nil {
					mf = &mapFill{alloc: target, name: target.Comment, loop: map[*ssa.BasicBlock]bool{}}
					found[target] = mf
				}
				for bb := range body {
					mf.loop[bb] = true
				}
			}
		}
	}
	var out []mapFill
	for _, mf := range found {
		out = append(out, *mf)
	}
	sort.Slice(out, func(i, j int) bool { return out[i].alloc.Pos() < out[j].alloc.Pos() })
	return out
}

// sortedBeforeUse: some sort call on the slice dominates every read of it outside the filling loop
// (other than the reads that feed the sort call itself).
func sortedBeforeUse(fn *ssa.Function, mf mapFill) (bool, string) {
	ok, why, _ := sortedBeforeUseCalls(fn, mf)
	return ok, why
}

// comparatorLemmas: comparison functions for which harness lemmas (irreflexive, asymmetric,
// transitive, total) exist under contract; a sort of a map-filled slice is deterministic only with one of them
// (or the built-in order of sort.Strings / sort.Ints).
var comparatorLemmas = map[string][]string{
	pkgDecorator + ".packagePathOrderLess": {pkgDecorator + ".lemmaOrderIrreflexive", pkgDecorator + ".lemmaOrderAsymmetric", pkgDecorator + ".lemmaOrderTransitive", pkgDecorator + ".lemmaOrderTotal"},
}

// comparatorOf: the named comparison function a sort call's less-closure delegates to: the closure's only call is
// F(s[i], s[j]) and its result is what the closure returns. "" with a reason otherwise; "builtin" for sort.Strings / sort.Ints.
func comparatorOf(sc *ssa.Call) (string, string) {
	switch sc.Call.StaticCallee().Name() {
	case "Strings", "Ints":
		return "builtin", ""
	case "Slice", "SliceStable":
	default:
		return "", "sorted through a sort.Interface whose Less is not under contract"
	}
	if len(sc.Call.Args) < 2 {
		return "", "no comparison function"
	}
	var cl *ssa.Function
	switch v := sc.Call.Args[1].(type) {
	case *ssa.MakeClosure:
		cl, _ = v.Fn.(*ssa.Function)
	case *ssa.Function:
		cl = v
	}
	if cl == nil {
		return "", "the comparison function is not a function literal"
	}
	var calls []*ssa.Call
	for _, b := range cl.Blocks {
		for _, in := range b.Instrs {
			switch x := in.(type) {
			case *ssa.Call:
				if _, isBuiltin := x.Call.Value.(*ssa.Builtin); isBuiltin {
					continue
				}
				calls = append(calls, x)
			case *ssa.Return:
				if len(calls) != 1 || len(x.Results) != 1 || throughLocal(x.Results[0]) != ssa.Value(calls[0]) {
					return "", "the comparison function does not return the result of exactly one call of a named comparison"
				}
			}
		}
	}
	if len(calls) != 1 || len(cl.Blocks) != 1 {
		return "", "the comparison function is not a single call of a named comparison"
	}
	callee := calls[0].Call.StaticCallee()
	if callee == nil {
		return "", "the comparison function calls a dynamic callee"
	}
	// arguments: element i and element j of the slice, in this order
	if len(calls[0].Call.Args) != 2 || len(cl.Params) != 2 {
		return "", "the comparison is not called with two elements"
	}
	for k, a := range calls[0].Call.Args {
		idx := elementIndex(a)
		if idx == nil || throughLocal(idx) != ssa.Value(cl.Params[k]) {
			return "", fmt.Sprintf("argument %d of the comparison is not derived from the element at the closure's parameter %d alone", k+1, k+1)
		}
	}
	return callee.String(), ""
}

// throughLocal: a load of a local that is stored exactly once stands for the stored value (naive-form SSA keeps
// parameters and results in locals).
func throughLocal(v ssa.Value) ssa.Value {
	for i := 0; i < 4; i++ {
		ld, ok := v.(*ssa.UnOp)
		if !ok {
			return v
		}
		a, ok := ld.X.(*ssa.Alloc)
		if !ok {
			return v
		}
		var src ssa.Value
		n := 0
		for _, r := range *a.Referrers() {
			if st, ok := r.(*ssa.Store); ok && st.Addr == ssa.Value(a) {
				src = st.Val
				n++
			}
		}
		if n != 1 {
			return v
		}
		v = src
	}
	return v
}

// elementIndex: for a value computed from s[p] by loads, field reads and calls of pure library functions with that
// single argument, the index value p; nil otherwise.
func elementIndex(v ssa.Value) ssa.Value {
	for i := 0; i < 12; i++ {
		switch x := v.(type) {
		case *ssa.UnOp:
			v = x.X
		case *ssa.IndexAddr:
			return x.Index
		case *ssa.Index:
			return x.Index
		case *ssa.FieldAddr:
			v = x.X
		case *ssa.Field:
			v = x.X
		case *ssa.ChangeType:
			v = x.X
		case *ssa.Convert:
			v = x.X
		default:
			return nil
		}
	}
	return nil
}

func sortedBeforeUseCalls(fn *ssa.Function, mf mapFill) (bool, string, []*ssa.Call) {
	isSort := func(c *ssa.CallCommon) bool {
		if f := c.StaticCallee(); f != nil && f.Pkg != nil && f.Pkg.Pkg.Path() == "sort" {
			switch f.Name() {
			case "Slice", "SliceStable", "Strings", "Sort", "Stable", "Ints":
				return true
			}
		}
		return false
	}
	fromSlice := func(v ssa.Value) bool {
		for i := 0; i < 6; i++ {
			switch x := v.(type) {
			case *ssa.UnOp:
				if a, ok := x.X.(*ssa.Alloc); ok {
					return a == mf.alloc
				}
				v = x.X
			case *ssa.MakeInterface:
				v = x.X
			case *ssa.ChangeType:
				v = x.X
			case *ssa.Convert:
				v = x.X
			default:
				return false
			}
		}
		return false
	}
	var sorts []*ssa.Call
	for _, b := range fn.Blocks {
		for _, in := range b.Instrs {
			if c, ok := in.(*ssa.Call); ok && isSort(&c.Call) && len(c.Call.Args) > 0 && fromSlice(c.Call.Args[0]) {
				sorts = append(sorts, c)
			}
		}
	}
	if len(sorts) == 0 {
		// never sorted: acceptable only if never read outside the loop
		for _, b := range fn.Blocks {
			if mf.loop[b] {
				continue
			}
			for _, in := range b.Instrs {
				if ld, ok := in.(*ssa.UnOp); ok && ld.X == mf.alloc {
					return false, fmt.Sprintf("%s is filled in map iteration order and read without being sorted", mf.name), sorts
				}
			}
		}
		return true, mf.name + " is filled from a map and never read outside the loop", sorts
	}
	for _, b := range fn.Blocks {
		if mf.loop[b] {
			continue
		}
		for idx, in := range b.Instrs {
			ld, ok := in.(*ssa.UnOp)
			if !ok || ld.X != mf.alloc {
				continue
			}
			covered := false
			for _, sc := range sorts {
				sb := sc.Block()
				if sb == b {
					// same block: the read feeds the sort call or follows it
					pos := -1
					for j, x := range b.Instrs {
						if x == ssa.Instruction(sc) {
							pos = j
						}
					}
					if idx > pos {
						covered = true
					} else {
						feeds := false
						for _, a := range sc.Call.Args {
							if v, ok := a.(ssa.Value); ok && (v == ssa.Value(ld) || fromSliceVia(v, ld)) {
								feeds = true
							}
						}
						if feeds {
							covered = true
						}
					}
				} else if sb.Dominates(b) {
					covered = true
				}
			}
			if !covered {
				// reads before the fill (e.g. len(s) for make) are harmless: they come before the loop
				beforeLoop := false
				for lb := range mf.loop {
					if b.Dominates(lb) && !mf.loop[b] {
						beforeLoop = true
					}
				}
				if beforeLoop {
					continue
				}
				return false, fmt.Sprintf("%s is filled in map iteration order; a read of it is not dominated by a sort call", mf.name), sorts
			}
		}
	}
	return true, mf.name + " is sorted before every read that follows the map iteration", sorts
}

func fromSliceVia(v ssa.Value, ld *ssa.UnOp) bool {
	for i := 0; i < 6; i++ {
		if v == ssa.Value(ld) {
			return true
		}
		switch x := v.(type) {
		case *ssa.MakeInterface:
			v = x.X
		case *ssa.ChangeType:
			v = x.X
		case *ssa.Convert:
			v = x.X
		default:
			return false
		}
	}
	return false
}
