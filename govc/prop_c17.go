package main

// C17: resolver failures surface as errors and leave the tree reusable.
//  - no swallowing: in every function between the resolver call and the public entry points, an
//    error returned by a callee is returned (unchanged, or wrapped with %w) on every path that saw it;
//  - no output on error: Fprint reaches format.Node only when restoring returned nil;
//  - frames: no function of package decorator stores into a go/ast node; updateImports returns its
//    error before the first store into the dst tree.

import (
	"fmt"
	"go/types"
	"os"
	"regexp"
	"sort"
	"strings"

	"golang.org/x/tools/go/ssa"
)

func isErrorType(t types.Type) bool {
	n, ok := t.(*types.Named)
	return ok && n.Obj().Name() == "error" && n.Obj().Pkg() == nil
}

// errorsNotDroppedByContinuing: a path that goes round a loop again has not seen a non-nil error from a call made in
// that iteration (an error must leave the function, not be skipped with continue).
func errorsNotDroppedByContinuing(ex *Exec, frm *frame, lr *loopRec, edge int, name, g string) {
	n := 0
	if os.Getenv("GOVC_DEBUG_HAVOC") != "" {
		fmt.Fprintf(os.Stderr, "backedge hook %s loop %d edge %d trace %d\n", name, lr.ord, edge, len(ex.trace))
		for i := range ex.trace {
			ev := &ex.trace[i]
			if ev.Kind == "call" {
				fmt.Fprintf(os.Stderr, "  call %s depth %d res %v inloop %v\n", ev.Callee, ev.Depth, ev.Res != nil, ev.Instr != nil && lr.blocks[ev.Instr.Block()])
			}
		}
	}
	for i := range ex.trace {
		ev := &ex.trace[i]
		if ev.Kind != "call" || ev.Depth != 0 || ev.Res == nil || ev.Instr == nil || !lr.blocks[ev.Instr.Block()] {
			continue
		}
		var ce string
		switch {
		case len(ev.Res.Tuple) > 0:
			last := ev.Res.Tuple[len(ev.Res.Tuple)-1]
			if last.Typ == nil || !isErrorType(last.Typ) {
				continue
			}
			ce = last.T
		case ev.Res.Typ != nil && isErrorType(ev.Res.Typ):
			ce = ev.Res.T
		default:
			continue
		}
		if strings.Contains(ev.Callee, "fmt.Errorf") {
			continue
		}
		n++
		short := ev.Callee[strings.LastIndex(ev.Callee, ".")+1:]
		if os.Getenv("GOVC_DEBUG_HAVOC") != "" {
			fmt.Fprintf(os.Stderr, "  oblige continuing %s ce=%s\n", short, ce)
		}
		ex.oblige(fmt.Sprintf("%s#errors:not_dropped_by_continuing:loop%d.%d:%s@%d", name, lr.ord, edge, short, n), "schema", and(g, ev.Guard), eq(ce, nilIface),
			"a path that continues with the next iteration has not seen a non-nil error from "+short, ex.pos(ev.Instr.Pos()))
	}
}

// errorPropagation adds, for every call event whose last result is an error, the obligation that on
// paths where that error was non-nil the function's own error result is it (or wraps it).
func errorPropagation(ex *Exec, frm *frame, name, g string, res []Val) {
	sig := frm.fn.Signature
	nres := sig.Results().Len()
	if nres == 0 || !isErrorType(sig.Results().At(nres-1).Type()) || len(res) != nres {
		return
	}
	myErr := res[nres-1].T
	ex.u.declareFun("spec$wraps", []string{SIface, SIface}, SBool)
	n := 0
	for i := range ex.trace {
		ev := &ex.trace[i]
		// calls made by inlined helpers count as well: their errors have to reach this function's result too
		if ev.Kind != "call" || ev.Res == nil {
			continue
		}
		var ce string
		switch {
		case len(ev.Res.Tuple) > 0:
			last := ev.Res.Tuple[len(ev.Res.Tuple)-1]
			if last.Typ == nil || !isErrorType(last.Typ) {
				continue
			}
			ce = last.T
		case ev.Res.Typ != nil && isErrorType(ev.Res.Typ):
			ce = ev.Res.T
		default:
			continue
		}
		if strings.Contains(ev.Callee, "fmt.Errorf") {
			continue
		}
		n++
		short := ev.Callee[strings.LastIndex(ev.Callee, ".")+1:]
		goal := not(eq(myErr, nilIface))
		if strings.Contains(ev.Callee, pkgDecorator) || strings.Contains(ev.Callee, "Resolve") {
			// errors on the way up from a resolver are returned unchanged or wrapped
			goal = and(goal, or(eq(myErr, ce), app("spec$wraps", myErr, ce)))
		}
		// other results are zero on error (for the library's own callees; a parser error may come with a partial file)
		// other results are zero on error where the callee itself promises that (its error_result clause);
		// ParseFile, for one, documents a partial file together with a parse error
		zeroOnError := false
		if fc := ex.db.Funcs[ev.Callee]; fc != nil {
			for _, e := range fc.Ensures {
				if e.Label == "error_result" {
					zeroOnError = true
				}
			}
		}
		for k := 0; k < nres-1 && zeroOnError; k++ {
			if res[k].T != "" {
				goal = and(goal, eq(res[k].T, zeroTerm(sig.Results().At(k).Type())))
			}
		}
		ex.oblige(fmt.Sprintf("%s#errors:propagated:%s@%d", name, short, n), "schema", and(g, ev.Guard, not(eq(ce, nilIface))), goal,
			"an error returned by "+short+" is returned (unchanged or wrapped with %w), with zero values for the other results", ex.pos(ev.Instr.Pos()))
	}
	o := ex.oblige(name+"#errors:calls_with_error_results", "frame", "true", "true", fmt.Sprintf("%d calls returning an error examined", n), "")
	o.Guard = "true"
}

var reEntryPre = regexp.MustCompile(`^(decorator\.(Decorate|DecorateFile|Parse|ParseFile|ParseDir)|\(\*decorator\.Decorator\)\.ParseDir)#call:decorator\.\(\*Decorator\)\.\w+:(maps|objects)@`)

// DecorateNode re-establishes its entry conditions, which is what lets ParseDir call it in a loop
var reEntryKept = regexp.MustCompile(`^\(\*decorator\.Decorator\)\.(DecorateNode#ensures:(maps|objects)$|ParseDir#loop\d+-(entry|preserve)(\.\d+)?:(maps|objects)$)`)

func buildC17(p *Program, tier string) ([]*Unit, []UnitError) {
	var units []*Unit
	var errs []UnitError
	// (1) decorateNode, per case: the #errors obligations are generated by its driver
	us, es := buildDecorateNode(p, tier)
	units, errs = append(units, us...), append(errs, es...)
	// (2) the other functions on the way from the resolver calls to the entry points
	for _, key := range []string{
		fr("updateImports"), fd("resolvePath"), fd("decorateSelectorExpr"), fd("decorateObject"), fd("decorateScope"), fd("fragment"), fd("link"), fd("addNodeFragments"),
		pkgDecorator + ".(*Decorator).ParseDir", pkgDecorator + ".Parse", pkgDecorator + ".ParseFile", pkgDecorator + ".ParseDir", pkgDecorator + ".Decorate", pkgDecorator + ".DecorateFile", pkgDecorator + ".Print",
		pkgDecorator + ".(*Decorator).DecorateNode", pkgDecorator + ".(*Decorator).DecorateFile", pkgDecorator + ".(*Decorator).ParseFile", pkgDecorator + ".(*Decorator).Parse",
		fr("RestoreFile"), pkgDecorator + ".(*Restorer).RestoreFile", pkgDecorator + ".(*Restorer).Fprint", fr("Fprint"),
		pkgDecorator + ".(*Restorer).Print", fr("Print"), pkgDecorator + ".RestoreFile", pkgDecorator + ".Fprint",
	} {
		key := key
		fn := p.fns[key]
		name := shortKey(key)
		if fn != nil {
			name = shortFn(fn)
		}
		if !wantUnit(name) {
			continue
		}
		opts := &UnitOpts{Trace: true, NameSuffix: ""}
		opts.AtBackEdge = func(ex *Exec, frm *frame, lr *loopRec, edge int, g string, st *State) {
			errorsNotDroppedByContinuing(ex, frm, lr, edge, name, g)
		}
		opts.AtExit = func(ex *Exec, frm *frame, g string, st *State, res []Val) {
			errorPropagation(ex, frm, name, g, res)
			// no output on error: format.Node is reached only if restoring returned nil
			var restoreErr string
			for i := range ex.trace {
				ev := &ex.trace[i]
				if ev.Kind != "call" || ev.Depth != 0 {
					continue
				}
				if strings.HasSuffix(ev.Callee, "RestoreFile") && ev.Res != nil && len(ev.Res.Tuple) >= 2 {
					restoreErr = ev.Res.Tuple[len(ev.Res.Tuple)-1].T
				}
				if strings.HasSuffix(ev.Callee, "go/format.Node") && restoreErr != "" {
					ex.oblige(name+"#errors:no_output_after_failed_restore", "schema", ev.Guard, eq(restoreErr, nilIface), "format.Node is called only when RestoreFile returned a nil error", ex.pos(ev.Instr.Pos()))
				}
			}
		}
		u, err := p.verifyFunc(key, opts)
		if err != nil {
			errs = append(errs, UnitError{name, err.Error()})
			continue
		}
		units = append(units, u)
	}
	// (3) structural frames
	ex := p.newExec("frames")
	unit := ex.unit
	check := func(name string, ok bool, what, where string) {
		goal := "true"
		if !ok {
			goal = "false"
		}
		o := ex.oblige(name, "frame", "true", goal, what, where)
		o.Guard = "true"
	}
	isAstStruct := func(t types.Type) bool {
		n, ok := t.(*types.Named)
		return ok && n.Obj().Pkg() != nil && n.Obj().Pkg().Path() == "go/ast" && isStruct(n)
	}
	isDstStruct := func(t types.Type) bool {
		n, ok := t.(*types.Named)
		return ok && n.Obj().Pkg() != nil && n.Obj().Pkg().Path() == pkgDst && isStruct(n)
	}
	// fieldOwner: the struct type whose field (or a slice/map held in its field) an address denotes
	var fieldOwner func(v ssa.Value) types.Type
	fieldOwner = func(v ssa.Value) types.Type {
		switch x := v.(type) {
		case *ssa.FieldAddr:
			st := deref(x.X.Type())
			if _, isAlloc := x.X.(*ssa.Alloc); isAlloc {
				return nil // a local struct value
			}
			return st
		case *ssa.IndexAddr:
			if ld, ok := x.X.(*ssa.UnOp); ok {
				return fieldOwner(ld.X)
			}
		}
		return nil
	}
	nAst := 0
	for _, fn := range allFuncs(p, pkgDecorator) {
		// a freshly allocated object (composite literal) being initialised is not input
		for _, b := range fn.Blocks {
			for _, in := range b.Instrs {
				var owner types.Type
				switch x := in.(type) {
				case *ssa.Store:
					owner = fieldOwner(x.Addr)
					if fa, ok := x.Addr.(*ssa.FieldAddr); ok {
						if isFreshAlloc(fa.X) {
							owner = nil
						}
					}
				case *ssa.MapUpdate:
					if ld, ok := x.Map.(*ssa.UnOp); ok {
						owner = fieldOwner(ld.X)
						if fa, ok := ld.X.(*ssa.FieldAddr); ok && isFreshAlloc(fa.X) {
							owner = nil
						}
					}
				}
				if owner != nil && isAstStruct(owner) && !isFreshAstInRestorer(fn, in) {
					nAst++
					check(fmt.Sprintf("decorator#frame:no_store_into_go_ast:%s@%d", shortFn(fn), nAst), false, "a function of package decorator that is not building the restored ast stores into a go/ast node ("+typeKey(owner)+")", ex.pos(in.Pos()))
				}
			}
		}
	}
	check("decorator#frame:decorating_functions_never_store_into_go_ast", nAst == 0, fmt.Sprintf("%d stores into go/ast nodes outside the restorer", nAst), "")
	// updateImports: every error return precedes every store into the dst tree; the error wraps the resolver's
	if fn := p.fns[fr("updateImports")]; fn != nil {
		var errRets []*ssa.Return
		var dstWrites []ssa.Instruction
		var scan func(f *ssa.Function)
		scan = func(f *ssa.Function) {
			for _, b := range f.Blocks {
				for _, in := range b.Instrs {
					switch x := in.(type) {
					case *ssa.Return:
						if f == fn && len(x.Results) == 1 {
							if c, ok := returnedValue(x, 0).(*ssa.Const); !ok || c.Value != nil {
								errRets = append(errRets, x)
							}
						}
					case *ssa.Store:
						if o := fieldOwner(x.Addr); o != nil && isDstStruct(o) {
							if fa, ok := x.Addr.(*ssa.FieldAddr); ok && isFreshAlloc(fa.X) {
								continue
							}
							dstWrites = append(dstWrites, in)
						}
					}
				}
			}
			for _, a := range f.AnonFuncs {
				scan(a)
			}
		}
		scan(fn)
		reach := func(from, to *ssa.BasicBlock) bool {
			seen := map[*ssa.BasicBlock]bool{}
			var st []*ssa.BasicBlock
			st = append(st, from)
			for len(st) > 0 {
				b := st[len(st)-1]
				st = st[:len(st)-1]
				if b == to {
					return true
				}
				if seen[b] {
					continue
				}
				seen[b] = true
				st = append(st, b.Succs...)
			}
			return false
		}
		bad := 0
		for _, w := range dstWrites {
			if w.Parent() != fn {
				// a store inside a closure: it must not be callable before an error return; closures that write dst fields are flagged
				bad++
				continue
			}
			for _, r := range errRets {
				if reach(w.Block(), r.Block()) {
					bad++
				}
			}
		}
		check("updateImports#frame:error_returned_before_any_dst_store", bad == 0 && len(errRets) > 0,
			fmt.Sprintf("%d error returns, %d stores into dst nodes, %d store(s) that can precede an error return", len(errRets), len(dstWrites), bad), "")
		// wrapping: each error return value comes from fmt.Errorf with a constant format containing %w
		wrapOK := len(errRets) > 0
		for _, r := range errRets {
			ok := false
			v := returnedValue(r, 0)
			if c, isCall := v.(*ssa.Call); isCall {
				if cal := c.Call.StaticCallee(); cal != nil && cal.String() == "fmt.Errorf" {
					if f, isC := c.Call.Args[0].(*ssa.Const); isC && strings.Contains(constantStringVal(f), "%w") {
						ok = true
					}
				}
			}
			if !ok {
				// the error of a helper of this package handed on unchanged: the semantic rule (#errors:propagated on the
				// updateImports unit, which follows inlined helpers) decides whether it wraps the resolver's error
				fromHelper := func(x ssa.Value) bool {
					var c *ssa.Call
					switch y := x.(type) {
					case *ssa.Extract:
						c, _ = y.Tuple.(*ssa.Call)
					case *ssa.Call:
						c = y
					}
					if c == nil {
						return false
					}
					cal := c.Call.StaticCallee()
					return cal != nil && cal.Pkg == fn.Pkg
				}
				if fromHelper(v) {
					ok = true
				} else if ld, isLd := v.(*ssa.UnOp); isLd {
					if a, isA := ld.X.(*ssa.Alloc); isA {
						n, good := 0, 0
						for _, rf := range *a.Referrers() {
							if st, isSt := rf.(*ssa.Store); isSt && st.Addr == ssa.Value(a) {
								n++
								if fromHelper(st.Val) {
									good++
								}
							}
						}
						ok = n > 0 && n == good
					}
				}
			}
			if !ok {
				wrapOK = false
			}
		}
		check("updateImports#errors:resolver_error_wrapped_with_%w", wrapOK, "every error return of updateImports is fmt.Errorf with a constant format containing %w", "")
	}
	sort.Slice(unit.Obls, func(i, j int) bool { return unit.Obls[i].Name < unit.Obls[j].Name })
	units = append(units, unit)
	return units, errs
}

func isFreshAlloc(v ssa.Value) bool {
	switch x := v.(type) {
	case *ssa.Alloc:
		return true
	case *ssa.UnOp:
		// a local holding the result of &T{} in this function
		if a, ok := x.X.(*ssa.Alloc); ok {
			n, fresh := 0, 0
			for _, r := range *a.Referrers() {
				if st, ok := r.(*ssa.Store); ok && st.Addr == a {
					n++
					if _, isAlloc := st.Val.(*ssa.Alloc); isAlloc {
						fresh++
					}
				}
			}
			return n > 0 && n == fresh
		}
	}
	return false
}

// isFreshAstInRestorer: the restorer builds go/ast nodes; its stores go into nodes it allocates
// (checked by the frame obligations of the restoreNode units), so only non-restorer functions count here.
func isFreshAstInRestorer(fn *ssa.Function, in ssa.Instruction) bool {
	for f := fn; f != nil; f = f.Parent() {
		if recv := f.Signature.Recv(); recv != nil {
			t := recv.Type()
			if p, ok := t.(*types.Pointer); ok {
				t = p.Elem()
			}
			if n, ok := t.(*types.Named); ok && (n.Obj().Name() == "FileRestorer" || n.Obj().Name() == "Restorer") {
				return true
			}
		}
	}
	return false
}

func init() {
	register(&Property{
		ID:       "C17",
		Title:    "Resolver failures surface as errors and leave the tree reusable",
		Packages: []string{pkgDecorator},
		Build:    buildC17,
		Select: func(n string) bool {
			if reEntryPre.MatchString(n) || reEntryKept.MatchString(n) {
				// entry preconditions carried from the package-level helpers and ParseDir to the methods they wrap
				return true
			}
			return strings.Contains(n, "#errors:") || strings.Contains(n, "#frame") || strings.Contains(n, "error_result")
		},
		Siblings: "C03/C11 (decorator side fields and maps, when claimed)",
		Assumptions: []string{
			"resolvers (ResolveIdent, ResolvePackage) do not modify the trees they are given",
			"fmt.Errorf with a constant format containing %w wraps that operand (assumed contract of fmt)",
			"the retry clause follows from the frames and from each call being a function of the unmodified tree and a fresh decorator/restorer; it is not a separate obligation",
		},
	})
}

// returnedValue: the value a return statement returns in result position i (results are spilled to a
// local and reloaded in this SSA form: take the last store to that local in the returning block).
func returnedValue(r *ssa.Return, i int) ssa.Value {
	v := r.Results[i]
	ld, ok := v.(*ssa.UnOp)
	if !ok {
		return v
	}
	a, ok := ld.X.(*ssa.Alloc)
	if !ok {
		return v
	}
	var last ssa.Value
	for _, in := range r.Block().Instrs {
		if st, ok := in.(*ssa.Store); ok && st.Addr == a {
			last = st.Val
		}
	}
	if last != nil {
		return last
	}
	return v
}
