package main

// `govc check <ID>`: build the property's verification units from /repo's working tree,
// discharge every obligation, compare with the lock file and the known-findings file,
// write evidence and replay files, print VIOLATION / KNOWN-FINDING lines.

import (
	"encoding/json"
	"fmt"
	"os"
	"os/exec"
	"path/filepath"
	"regexp"
	"sort"
	"strconv"
	"strings"
	"time"
)

type Property struct {
	ID          string
	Title       string
	Packages    []string
	Extra       []string
	Build       func(p *Program, tier string) ([]*Unit, []UnitError)
	Assumptions []string
	NotDecided  []string
	Replay      func(p *Program, r *OblResult, dir string) *ReplayOutcome
	Emb         []string               // nested struct types to model as separate objects
	Select      func(name string) bool // which obligations of the shared units this property's check discharges (nil = all)
	Siblings    string                 // which checks discharge the obligations left out by Select
}

type UnitError struct {
	Unit string
	Err  string
}

type ReplayOutcome struct {
	Reproduced bool
	Input      string
	Observed   string
	Cmd        string
	Output     string
}

var properties = map[string]*Property{}

func register(p *Property) { properties[p.ID] = p }

type KnownFinding struct {
	Kind       string `json:"kind"` // "known" or "fixed"
	Property   string `json:"property"`
	Obligation string `json:"obligation,omitempty"`
	What       string `json:"what"`
	Commit     string `json:"commit,omitempty"`
}

type lockFile map[string][]string

func loadLock() lockFile {
	lf := lockFile{}
	b, err := os.ReadFile(filepath.Join(verifRoot(), "obligations.lock.json"))
	if err == nil {
		_ = json.Unmarshal(b, &lf)
	}
	return lf
}

func loadKnown() []KnownFinding {
	var ks []KnownFinding
	b, err := os.ReadFile(filepath.Join(verifRoot(), "known_findings.json"))
	if err == nil {
		_ = json.Unmarshal(b, &ks)
	}
	return ks
}

func checkMain(args []string) int {
	if len(args) < 1 {
		usage()
	}
	id := args[0]
	tier := os.Getenv("VERIF_TIER")
	if tier == "" {
		tier = "quick"
	}
	writeLock := false
	replay := ""
	for i := 1; i < len(args); i++ {
		switch args[i] {
		case "--tier":
			i++
			tier = args[i]
		case "--replay":
			i++
			replay = args[i]
		case "--write-lock":
			writeLock = true
		}
	}
	prop := properties[id]
	if prop == nil {
		fmt.Fprintf(os.Stderr, "unknown property %s\n", id)
		return 2
	}
	seed := 0
	if s := os.Getenv("VERIF_SEED"); s != "" {
		seed, _ = strconv.Atoi(s)
		seed &= 0x7fffffff
	}
	if replay != "" {
		return replayMain(prop, replay)
	}
	start := time.Now()
	outDir := filepath.Join(outRoot(), "out", id)
	os.RemoveAll(outDir)
	os.MkdirAll(outDir, 0o755)
	replayDir := filepath.Join(outRoot(), "replays", id)
	os.RemoveAll(replayDir)

	prog, err := loadProgram(prop.Packages, prop.Extra)
	if err != nil {
		fmt.Fprintf(os.Stderr, "govc: cannot load /repo: %v\n", err)
		if strings.Contains(err.Error(), "contract") || strings.Contains(err.Error(), "verif_contracts") {
			// a broken contract file is an engine-side problem
			return 2
		}
		return 2
	}
	for _, e := range prop.Emb {
		prog.embAllowed[e] = true
	}
	units, uerrs := prop.Build(prog, tier)
	ro := RunOpts{Timeout: 20, Seed: seed, OutDir: outDir, Parallel: 4}
	if tier == "thorough" {
		ro.Timeout = 60
		ro.CrossAll = true
		ro.Parallel = 3
	}
	nSibling := 0
	if prop.Select != nil {
		for _, u := range units {
			var keep []*Obligation
			for _, o := range u.Obls {
				if o.Kind == "canary" || o.Kind == "vacuity" || prop.Select(o.Name) {
					keep = append(keep, o)
				} else {
					nSibling++
				}
			}
			u.Obls = keep
		}
	}
	buildS := time.Since(start).Seconds()
	ro.Known = map[string]bool{}
	for _, k := range loadKnown() {
		if k.Kind == "known" && k.Property == id {
			ro.Known[k.Obligation] = true
		}
	}
	results := runObligations(units, ro)
	if os.Getenv("GOVC_TIMES") != "" {
		fmt.Fprintf(os.Stderr, "build %.1fs, discharge %.1fs (query generation, summed over goroutines: %.1fs)\n", buildS, time.Since(start).Seconds()-buildS, float64(emitNanos)/1e9)
	}

	known := loadKnown()
	lock := loadLock()
	isKnown := func(name string) *KnownFinding {
		for i := range known {
			k := &known[i]
			if k.Kind == "known" && k.Property == id && k.Obligation == name {
				return k
			}
		}
		return nil
	}

	type sample struct {
		Obligation string `json:"obligation"`
		Kind       string `json:"kind"`
		Clause     string `json:"clause,omitempty"`
		Verdict    string `json:"verdict"`
		Solver     string `json:"solver"`
		Ms         int64  `json:"ms"`
		File       string `json:"smt_file,omitempty"`
	}
	var samples []sample
	perBackend := map[string]int{}
	var solverMs int64
	nObl, nDis, nCan, nCanOK, nVac, nVacOK := 0, 0, 0, 0, 0, 0
	var violations []string
	var knownHit []string
	generated := map[string]bool{}
	unitFailed := map[*Unit]bool{}
	var disagreements []string
	for _, r := range results {
		if r.Obl.Expect == Unsat && !r.OK {
			unitFailed[r.Unit] = true
		}
	}
	writeReplay := func(name string, payload map[string]interface{}) string {
		path := filepath.Join(replayDir, sanitize(name)+".json")
		b, _ := json.MarshalIndent(payload, "", " ")
		_ = writeFile(path, string(b))
		return path
	}
	for _, r := range results {
		if os.Getenv("GOVC_TIMES") != "" {
			fmt.Fprintf(os.Stderr, "%6dms %-8s %-7s %s\n", r.Res.Ms, r.Res.Solver, r.Res.Verdict, r.Obl.Name)
		}
		solverMs += r.Res.Ms
		o := r.Obl
		switch o.Kind {
		case "canary":
			nCan++
			if r.OK || unitFailed[r.Unit] {
				nCanOK++
			} else {
				fmt.Fprintf(os.Stderr, "govc: canary %s was discharged: the unit's assumptions are contradictory\n", o.Name)
				violations = append(violations, "") // counted below as engine failure
				_ = writeReplay(o.Name, map[string]interface{}{"obligation": o.Name, "reason": "vacuous unit: false is provable at the exit", "smt": r.File})
				fmt.Printf("ENGINE-ERROR vacuous-unit %s\n", o.Name)
				return 2
			}
			continue
		case "vacuity":
			nVac++
			if r.OK {
				nVacOK++
			} else {
				fmt.Printf("ENGINE-ERROR contradictory-requires %s\n", o.Name)
				return 2
			}
			continue
		}
		generated[o.Name] = true
		if len(samples) < 12 || !r.OK {
			samples = append(samples, sample{o.Name, o.Kind, o.Src, r.Res.Verdict.String(), r.Res.Solver, r.Res.Ms, strings.TrimPrefix(r.File, outRoot()+"/")})
		}
		if r.AllRuns != nil {
			for sname, v := range r.AllRuns {
				if v == Sat && r.Res.Verdict == Unsat || v == Unsat && r.Res.Verdict == Sat {
					disagreements = append(disagreements, o.Name+": "+sname+" says "+v.String())
				}
			}
		}
		if k := isKnown(o.Name); k != nil {
			if !r.OK {
				knownHit = append(knownHit, o.Name)
				fmt.Printf("KNOWN-FINDING: property=%s %s\n", id, k.What)
			} else {
				fmt.Fprintf(os.Stderr, "govc: note: known finding %s no longer fails\n", o.Name)
				nObl++
				nDis++
			}
			continue
		}
		nObl++
		if r.OK {
			nDis++
			perBackend[r.Res.Solver]++
			continue
		}
		// an undischarged obligation: violation
		payload := map[string]interface{}{
			"property": id, "obligation": o.Name, "kind": o.Kind, "clause": o.Src, "where": o.Where,
			"verdict": r.Res.Verdict.String(), "solvers": r.Res.Raw, "smt_file": r.File, "unit": r.Unit.Name,
		}
		suffix := " no-failing-input-found"
		if r.Res.Verdict == Sat {
			payload["model"] = trimModel(r.Res.Model)
		}
		var rout *ReplayOutcome
		if prop.Replay != nil {
			rout = prop.Replay(prog, r, replayDir)
		} else {
			rout = genericReplay(o.Name)
		}
		if rout != nil {
			payload["replay"] = rout
			if rout.Reproduced && replayRelevant(o.Name, rout) {
				suffix = ""
				payload["failing_input"] = rout.Input
				payload["observed_on_real_code"] = rout.Observed
			}
		}
		path := writeReplay(o.Name, payload)
		violations = append(violations, fmt.Sprintf("VIOLATION property=%s replay=%s obligation=%s%s", id, path, o.Name, suffix))
	}
	// units that could not be generated
	for _, ue := range uerrs {
		payload := map[string]interface{}{"property": id, "unit": ue.Unit, "reason": "the verification unit could not be generated from the current source: " + ue.Err}
		usfx := " no-failing-input-found"
		// a unit that cannot be generated proves nothing either way; a replay on the real code can still find a failing input
		if rout := genericReplay(ue.Unit + "#unit"); rout != nil {
			payload["replay"] = rout
			if rout.Reproduced {
				usfx = ""
				payload["failing_input"] = rout.Input
				payload["observed_on_real_code"] = rout.Observed
			}
		}
		path := writeReplay("unit-"+ue.Unit, payload)
		nObl++
		violations = append(violations, fmt.Sprintf("VIOLATION property=%s replay=%s unit=%s%s", id, path, ue.Unit, usfx))
	}
	// locked obligations that were not regenerated
	if !writeLock && os.Getenv("GOVC_FILTER") == "" {
		for _, name := range lock[id] {
			if !generated[name] {
				skip := !lockable(name)
				for _, ue := range uerrs {
					if strings.HasPrefix(name, ue.Unit) {
						skip = true
					}
				}
				if skip {
					continue
				}
				nObl++
				path := writeReplay("missing-"+name, map[string]interface{}{"property": id, "obligation": name, "reason": "anchor-missing: the obligation recorded on the unchanged tree was not regenerated"})
				violations = append(violations, fmt.Sprintf("VIOLATION property=%s replay=%s obligation=%s no-failing-input-found", id, path, name))
			}
		}
	}
	if writeLock {
		var names []string
		for n := range generated {
			if lockable(n) {
				names = append(names, n)
			}
		}
		sort.Strings(names)
		lock[id] = names
		b, _ := json.MarshalIndent(lock, "", " ")
		_ = os.WriteFile(filepath.Join(verifRoot(), "obligations.lock.json"), append(b, '\n'), 0o644)
	}

	// evidence
	var fns, trusted, warns []string
	assume := append([]string{}, prop.Assumptions...)
	for _, u := range units {
		fns = appendUniq(fns, u.Funcs...)
		trusted = appendUniq(trusted, u.Trusted...)
		warns = appendUniq(warns, u.Warnings...)
		assume = appendUniq(assume, u.U.assumes...)
	}
	sort.Strings(fns)
	for _, w := range warns {
		assume = appendUniq(assume, "abstraction: "+w)
	}
	for _, t := range trusted {
		assume = appendUniq(assume, "assumed contract (not verified): "+t)
	}
	for _, nd := range prop.NotDecided {
		assume = appendUniq(assume, "not decided by this check: "+nd)
	}
	ev := map[string]interface{}{
		"property_id": id,
		"tier":        tier,
		"seed":        seed,
		"level":       "proof",
		"wall_s":      time.Since(start).Seconds(),
		"violations":  len(violations),
		"assumptions": assume,
		"coverage": map[string]interface{}{
			"obligations":                 nObl,
			"discharged":                  nDis,
			"checker_cmd":                 "govc check " + id + " --tier " + tier + " (go/ssa -> guarded VCs -> z3-new 5.1.0 | z3 4.8.12 | cvc5 1.0.3, first unsat wins)",
			"trusted_base":                []string{"go/packages+go/types+go/ssa (x/tools v0.29.0) give a faithful SSA of /repo", "govc SSA->VC translation and memory model (DESIGN.md 2.3)", "z3 / cvc5 soundness of unsat", "mathematical integers (no overflow)", "partial correctness (termination not proved)"},
			"functions_under_contract":    fns,
			"per_backend":                 perBackend,
			"solver_ms":                   solverMs,
			"load_ms":                     prog.loadMs,
			"units":                       len(units),
			"canaries":                    map[string]int{"run": nCan, "not_provable_as_required": nCanOK},
			"vacuity_checks":              map[string]int{"run": nVac, "satisfiable": nVacOK},
			"known_findings_hit":          knownHit,
			"sibling_obligations_assumed": map[string]interface{}{"count": nSibling, "discharged_by": prop.Siblings},
			"solver_disagreements":        disagreements,
			"contract_files":              relPaths(prog.db.Files),
			"assume_scan":                 prog.db.Scan,
			"samples":                     samples,
			"explanation":                 "every obligation is an SMT query generated from the SSA of /repo's current source and the //@ contracts; discharged = unsat from at least one solver",
		},
	}
	b, _ := json.MarshalIndent(ev, "", " ")
	_ = writeFile(filepath.Join(outRoot(), "evidence", id+".json"), string(b)+"\n")

	if len(disagreements) > 0 {
		fmt.Fprintf(os.Stderr, "govc: solver disagreement: %v\n", disagreements)
		return 2
	}
	for _, v := range violations {
		fmt.Println(v)
	}
	fmt.Printf("%s: %d obligations, %d discharged, %d known findings, %d violations (%.1fs)\n", id, nObl, nDis, len(knownHit), len(violations), time.Since(start).Seconds())
	if len(violations) > 0 {
		return 1
	}
	return 0
}

func relPaths(ps []string) []string {
	var out []string
	for _, p := range ps {
		out = append(out, p)
	}
	return out
}

func appendUniq(xs []string, ys ...string) []string {
	for _, y := range ys {
		if !contains(xs, y) {
			xs = append(xs, y)
		}
	}
	return xs
}

func trimModel(m string) string {
	if len(m) > 20000 {
		return m[:20000] + "\n... (truncated)"
	}
	return m
}

func replayMain(prop *Property, path string) int {
	b, err := os.ReadFile(path)
	if err != nil {
		fmt.Fprintln(os.Stderr, err)
		return 2
	}
	var payload map[string]interface{}
	if err := json.Unmarshal(b, &payload); err != nil {
		fmt.Fprintln(os.Stderr, err)
		return 2
	}
	fmt.Printf("replay of %v\n", payload["obligation"])
	if ob, ok := payload["obligation"].(string); ok {
		if sp := replayFor(ob); sp != nil {
			// re-run the canonical-instance replay against the tree as it is now
			out := runReplay(sp)
			if out != nil {
				fmt.Printf("input: %s\n", out.Input)
				if out.Reproduced && replayRelevant(ob, out) {
					fmt.Printf("observed on the real code: %s\nreplay: the violation reproduces on the real code\n", out.Observed)
					return 1
				}
				fmt.Printf("replay: did not reproduce (%s)\n", out.Output)
			}
		}
	}
	if rp, ok := payload["replay"].(map[string]interface{}); ok && rp["Kind"] == "cmd" {
		if cmd, ok := rp["Cmd"].(string); ok && cmd != "" {
			c := exec.Command("bash", "-c", cmd)
			c.Stdout, c.Stderr = os.Stdout, os.Stderr
			if err := c.Run(); err != nil {
				fmt.Println("replay: the violation reproduces on the real code")
				return 1
			}
			fmt.Println("replay: did not reproduce")
			return 0
		}
	}
	// no concrete input: re-run the solver on the recorded query
	if f, ok := payload["smt_file"].(string); ok && f != "" {
		if _, err := os.Stat(f); err == nil {
			zf := strings.TrimSuffix(f, ".smt2") + ".z3.smt2"
			if _, err := os.Stat(zf); err != nil {
				zf = f
			}
			r := runSolvers(f, zf, 10, 0, nil)
			fmt.Printf("solver verdict on %s: %s (%v)\n", f, r.Verdict, r.Raw)
			if r.Verdict != Unsat {
				return 1
			}
			return 0
		}
	}
	fmt.Println("no concrete input recorded (no-failing-input-found); see the replay file for the failed obligation and solver output")
	return 1
}

// outRoot: where out/, replays/ and evidence/ are written (the self-test redirects it to a scratch directory).
func outRoot() string {
	if r := os.Getenv("GOVC_OUTROOT"); r != "" {
		return r
	}
	return verifRoot()
}

// lockable: the lock file guards against obligations that silently stop being generated (vacuity).
// Obligations at control-flow joins, at call sites, at individual events (the n-th store, allocation
// or map update: "@n") and frame obligations (one per heap array the body writes) are named after
// the shape of the implementation, which moves under harmless edits; they are checked whenever they
// are generated but their absence is not an alarm. What is locked is what carries a property by
// name: postconditions, loop invariants, schema/field/graph/tape/visit labels.
var reUnlockable = regexp.MustCompile(`#join\d+\.\d+:|#call:|@\d+$|#frame`)

func lockable(name string) bool { return !reUnlockable.MatchString(name) }
