package main

// SMT-LIB helpers and the solver race.

import (
	"bytes"
	"context"
	"fmt"
	"os"
	"os/exec"
	"path/filepath"
	"strings"
	"sync"
	"time"
)

// ---- term construction (terms are plain strings) ----

func app(op string, args ...string) string {
	if len(args) == 0 {
		return op
	}
	return "(" + op + " " + strings.Join(args, " ") + ")"
}

func and(args ...string) string {
	var out []string
	for _, a := range args {
		if a == "true" || a == "" {
			continue
		}
		if a == "false" {
			return "false"
		}
		out = append(out, a)
	}
	switch len(out) {
	case 0:
		return "true"
	case 1:
		return out[0]
	}
	return app("and", out...)
}

func or(args ...string) string {
	var out []string
	for _, a := range args {
		if a == "false" || a == "" {
			continue
		}
		if a == "true" {
			return "true"
		}
		out = append(out, a)
	}
	switch len(out) {
	case 0:
		return "false"
	case 1:
		return out[0]
	}
	return app("or", out...)
}

func not(a string) string {
	switch a {
	case "true":
		return "false"
	case "false":
		return "true"
	}
	if strings.HasPrefix(a, "(not ") && balanced(a[5:len(a)-1]) {
		return a[5 : len(a)-1]
	}
	return app("not", a)
}

func balanced(s string) bool {
	d := 0
	for _, c := range s {
		switch c {
		case '(':
			d++
		case ')':
			d--
			if d < 0 {
				return false
			}
		}
	}
	return d == 0
}

func implies(a, b string) string {
	if a == "true" {
		return b
	}
	if b == "true" {
		return "true"
	}
	return app("=>", a, b)
}

func eq(a, b string) string {
	if a == b {
		return "true"
	}
	return app("=", a, b)
}
func ite(c, a, b string) string {
	if c == "true" {
		return a
	}
	if c == "false" {
		return b
	}
	if a == b {
		return a
	}
	return app("ite", c, a, b)
}
func sel(a, i string) string      { return app("select", a, i) }
func store(a, i, v string) string { return app("store", a, i, v) }
func intLit(n int64) string {
	if n < 0 {
		return fmt.Sprintf("(- %d)", -n)
	}
	return fmt.Sprintf("%d", n)
}
func plus(a, b string) string {
	if b == "0" {
		return a
	}
	if a == "0" {
		return b
	}
	return app("+", a, b)
}
func minus(a, b string) string {
	if b == "0" {
		return a
	}
	return app("-", a, b)
}

// smtName makes an SMT symbol from an arbitrary string.
func smtName(s string) string {
	ok := true
	for _, c := range s {
		if !(c >= 'a' && c <= 'z' || c >= 'A' && c <= 'Z' || c >= '0' && c <= '9' || strings.ContainsRune("_.$@!%", c)) {
			ok = false
			break
		}
	}
	if ok && s != "" && !(s[0] >= '0' && s[0] <= '9') {
		return s
	}
	return "|" + strings.NewReplacer("|", "!", "\\", "!").Replace(s) + "|"
}

// ---- solver race ----

type Verdict int

const (
	Unknown Verdict = iota
	Unsat
	Sat
)

func (v Verdict) String() string { return [...]string{"unknown", "unsat", "sat"}[v] }

type SolverResult struct {
	Verdict Verdict
	Solver  string // which back end decided
	Ms      int64
	Model   string            // raw model text when sat
	Raw     map[string]string // first line per solver
}

var solverCmds = []struct {
	name string
	argv func(file string, sec int, seed int) []string
}{
	{"z3-new", func(f string, sec, seed int) []string {
		return []string{"z3-new", fmt.Sprintf("-T:%d", sec), fmt.Sprintf("smt.random_seed=%d", seed), fmt.Sprintf("sat.random_seed=%d", seed), f}
	}},
	{"z3", func(f string, sec, seed int) []string {
		return []string{"z3", fmt.Sprintf("-T:%d", sec), fmt.Sprintf("smt.random_seed=%d", seed), f}
	}},
	{"z3-lambda", func(f string, sec, seed int) []string {
		return []string{"z3", fmt.Sprintf("-T:%d", sec), fmt.Sprintf("smt.random_seed=%d", seed), f}
	}},
	{"cvc5", func(f string, sec, seed int) []string {
		return []string{"cvc5", fmt.Sprintf("--tlimit=%d", sec*1000), fmt.Sprintf("--seed=%d", seed), f}
	}},
}

// runSolvers races the installed solvers on one query file.
// wantModel: the script contains (get-model) after (check-sat).
func runSolvers(file, zfile string, sec int, seed int, only []string) SolverResult {
	start := time.Now()
	ctx, cancel := context.WithTimeout(context.Background(), time.Duration(sec+2)*time.Second)
	defer cancel()
	type one struct {
		name string
		out  string
	}
	ch := make(chan one, len(solverCmds))
	n := 0
	for _, sc := range solverCmds {
		if len(only) > 0 && !contains(only, sc.name) {
			continue
		}
		if sc.name == "z3-lambda" && zfile == file {
			continue
		}
		n++
		go func(name string, argv []string) {
			cmd := exec.CommandContext(ctx, argv[0], argv[1:]...)
			var buf bytes.Buffer
			cmd.Stdout = &buf
			cmd.Stderr = &buf
			_ = cmd.Run()
			ch <- one{name, buf.String()}
		}(sc.name, sc.argv(pickFile(sc.name, file, zfile), sec, seed))
	}
	res := SolverResult{Raw: map[string]string{}}
	for i := 0; i < n; i++ {
		o := <-ch
		first := firstVerdictLine(o.out)
		if len(first) > 200 {
			first = first[:200]
		}
		res.Raw[o.name] = first
		if res.Verdict != Unknown {
			continue
		}
		switch first {
		case "unsat":
			res.Verdict = Unsat
			res.Solver = o.name
			cancel()
		case "sat":
			res.Verdict = Sat
			res.Solver = o.name
			res.Model = o.out
			cancel()
		}
	}
	res.Ms = time.Since(start).Milliseconds()
	return res
}

// runSolversAll runs every solver to completion (thorough tier cross-check).
func runSolversAll(file, zfile string, sec int, seed int) map[string]Verdict {
	out := map[string]Verdict{}
	var mu sync.Mutex
	var wg sync.WaitGroup
	for _, sc := range solverCmds {
		wg.Add(1)
		go func(name string, argv []string) {
			defer wg.Done()
			ctx, cancel := context.WithTimeout(context.Background(), time.Duration(sec+2)*time.Second)
			defer cancel()
			cmd := exec.CommandContext(ctx, argv[0], argv[1:]...)
			var buf bytes.Buffer
			cmd.Stdout = &buf
			_ = cmd.Run()
			first := firstVerdictLine(buf.String())
			v := Unknown
			switch first {
			case "unsat":
				v = Unsat
			case "sat":
				v = Sat
			}
			mu.Lock()
			out[name] = v
			mu.Unlock()
		}(sc.name, sc.argv(pickFile(sc.name, file, zfile), sec, seed))
	}
	wg.Wait()
	return out
}

func contains(xs []string, x string) bool {
	for _, y := range xs {
		if y == x {
			return true
		}
	}
	return false
}

func writeFile(path, content string) error {
	if err := os.MkdirAll(filepath.Dir(path), 0o755); err != nil {
		return err
	}
	return os.WriteFile(path, []byte(content), 0o644)
}

func pickFile(solver, file, zfile string) string {
	if solver == "z3-lambda" {
		return zfile // arrays defined by lambdas instead of quantified facts
	}
	return file
}

// firstVerdictLine: the solver's answer, skipping warnings printed before it.
func firstVerdictLine(out string) string {
	lines := strings.Split(out, "\n")
	for _, l := range lines {
		l = strings.TrimSpace(l)
		switch l {
		case "sat", "unsat", "unknown", "timeout":
			return l
		}
	}
	return strings.TrimSpace(lines[0])
}
