package main

// Program loading, verification units for contracted functions, query emission and discharge.

import (
	"fmt"
	"go/types"
	"os"
	"path/filepath"
	"sort"
	"strings"
	"sync"
	"sync/atomic"
	"time"

	"golang.org/x/tools/go/packages"
	"golang.org/x/tools/go/ssa"
	"golang.org/x/tools/go/ssa/ssautil"
)

type Program struct {
	prog       *ssa.Program
	pkgs       map[string]*packages.Package
	spkgs      map[string]*ssa.Package
	db         *ContractDB
	fns        map[string]*ssa.Function // by contract key
	named      []*types.Named
	emb        map[string]bool
	embAllowed map[string]bool // nested struct types modelled as objects of their own (opt-in per property)
	loadMs     int64
}

const repoModule = "github.com/dave/dst"

func repoRoot() string {
	if r := os.Getenv("GOVC_REPO"); r != "" {
		return r
	}
	return "/repo"
}

func verifRoot() string {
	if r := os.Getenv("GOVC_VERIF"); r != "" {
		return r
	}
	return "/verif"
}

func loadProgram(patterns []string, extra []string) (*Program, error) {
	start := time.Now()
	cfg := &packages.Config{Mode: packages.LoadAllSyntax, Dir: repoRoot(), BuildFlags: []string{"-tags=verif"},
		Env: append(os.Environ(), "GOFLAGS=-mod=mod", "GOPROXY=off", "GOSUMDB=off", "GOTOOLCHAIN=local")}
	pkgs, err := packages.Load(cfg, append(patterns, extra...)...)
	if err != nil {
		return nil, err
	}
	var errs []string
	packages.Visit(pkgs, nil, func(p *packages.Package) {
		if strings.HasPrefix(p.PkgPath, repoModule) {
			for _, e := range p.Errors {
				errs = append(errs, e.Error())
			}
		}
	})
	if len(errs) > 0 {
		return nil, fmt.Errorf("the tree does not compile: %s", strings.Join(errs, "; "))
	}
	prog, _ := ssautil.AllPackages(pkgs, ssa.NaiveForm|ssa.GlobalDebug)
	p := &Program{prog: prog, pkgs: map[string]*packages.Package{}, spkgs: map[string]*ssa.Package{}, fns: map[string]*ssa.Function{}, embAllowed: map[string]bool{}}
	packages.Visit(pkgs, nil, func(pk *packages.Package) {
		p.pkgs[pk.PkgPath] = pk
	})
	for _, sp := range prog.AllPackages() {
		p.spkgs[sp.Pkg.Path()] = sp
	}
	// build only what we translate: repo packages and the requested extras
	for path, sp := range p.spkgs {
		if strings.HasPrefix(path, repoModule) || containsPrefix(extra, path) {
			sp.Build()
		}
	}
	// index functions by contract key
	for path, sp := range p.spkgs {
		if !(strings.HasPrefix(path, repoModule) || containsPrefix(extra, path)) {
			continue
		}
		for _, m := range sp.Members {
			switch m := m.(type) {
			case *ssa.Function:
				p.indexFn(m)
			case *ssa.Type:
				for _, t := range []types.Type{m.Type(), types.NewPointer(m.Type())} {
					ms := prog.MethodSets.MethodSet(t)
					for i := 0; i < ms.Len(); i++ {
						if f := prog.MethodValue(ms.At(i)); f != nil && f.Synthetic == "" {
							p.indexFn(f)
						}
					}
				}
			}
		}
	}
	// named types (for interface membership) from repo packages and go/ast
	for path, pk := range p.pkgs {
		if !(strings.HasPrefix(path, repoModule) || path == "go/ast" || containsPrefix(extra, path)) || pk.Types == nil {
			continue
		}
		sc := pk.Types.Scope()
		names := sc.Names()
		sort.Strings(names)
		for _, n := range names {
			if tn, ok := sc.Lookup(n).(*types.TypeName); ok {
				if nt, ok := tn.Type().(*types.Named); ok && nt.TypeParams().Len() == 0 {
					p.named = append(p.named, nt)
				}
			}
		}
	}
	sort.Slice(p.named, func(i, j int) bool { return typeKey(p.named[i]) < typeKey(p.named[j]) })
	p.emb = p.computeEmbTypes()
	p.db = newContractDB()
	if err := p.db.loadRepoContracts(repoRoot(), repoModule); err != nil {
		return nil, err
	}
	if err := p.db.loadExtContracts(filepath.Join(verifRoot(), "contracts", "ext")); err != nil {
		return nil, err
	}
	p.loadMs = time.Since(start).Milliseconds()
	return p, nil
}

func containsPrefix(xs []string, p string) bool {
	for _, x := range xs {
		if x == p {
			return true
		}
	}
	return false
}

func (p *Program) indexFn(f *ssa.Function) {
	p.fns[ssaFuncKey(f)] = f
	for _, an := range f.AnonFuncs {
		p.indexFn(an)
	}
}

// computeEmbTypes: struct types that occur both by value inside another struct and behind a pointer.
func (p *Program) computeEmbTypes() map[string]bool {
	nested := map[string]bool{}
	pointed := map[string]bool{}
	var visitT func(t types.Type, seen map[types.Type]bool)
	visitT = func(t types.Type, seen map[types.Type]bool) {
		if t == nil || seen[t] {
			return
		}
		seen[t] = true
		switch x := t.(type) {
		case *types.Pointer:
			if isStruct(x.Elem()) {
				pointed[structKey(x.Elem())] = true
			}
			visitT(x.Elem(), seen)
		case *types.Named:
			visitT(x.Underlying(), seen)
		case *types.Struct:
			for i := 0; i < x.NumFields(); i++ {
				ft := x.Field(i).Type()
				if isStruct(ft) {
					nested[structKey(ft)] = true
				}
				visitT(ft, seen)
			}
		case *types.Slice:
			visitT(x.Elem(), seen)
		case *types.Map:
			visitT(x.Key(), seen)
			visitT(x.Elem(), seen)
		case *types.Signature:
			for i := 0; i < x.Params().Len(); i++ {
				visitT(x.Params().At(i).Type(), seen)
			}
			for i := 0; i < x.Results().Len(); i++ {
				visitT(x.Results().At(i).Type(), seen)
			}
			if x.Recv() != nil {
				// receivers do not count: every method has one
			}
		}
	}
	seen := map[types.Type]bool{}
	for path, pk := range p.pkgs {
		if !strings.HasPrefix(path, repoModule) && !strings.Contains(path, "astutil") || pk.Types == nil {
			continue
		}
		sc := pk.Types.Scope()
		for _, n := range sc.Names() {
			o := sc.Lookup(n)
			visitT(o.Type(), seen)
			if tn, ok := o.(*types.TypeName); ok {
				if nt, ok := tn.Type().(*types.Named); ok {
					for i := 0; i < nt.NumMethods(); i++ {
						visitT(nt.Method(i).Type(), seen)
					}
				}
			}
		}
	}
	// pointers created by taking the address of a nested struct field and letting it escape
	for _, f := range p.fns {
		for _, b := range f.Blocks {
			for _, in := range b.Instrs {
				if fa, ok := in.(*ssa.FieldAddr); ok {
					ft := deref(fa.Type())
					if ft != nil && isStruct(ft) {
						for _, r := range *fa.Referrers() {
							switch r.(type) {
							case *ssa.FieldAddr, *ssa.DebugRef:
							case *ssa.UnOp:
							default:
								pointed[structKey(ft)] = true
							}
						}
					}
				}
			}
		}
	}
	out := map[string]bool{}
	for k := range nested {
		if pointed[k] {
			out[k] = true
		}
	}
	return out
}

func (p *Program) newExec(unitName string) *Exec {
	u := newUniverse()
	u.allNamed = p.named
	for k := range p.emb {
		if p.embAllowed[k] {
			u.embTypes[k] = true
		}
	}
	ex := &Exec{u: u, prog: p.prog, pkgs: p.pkgs, spkgs: p.spkgs, db: p.db, owners: map[string]types.Type{}, callOrd: map[string]int{}, fset: p.prog.Fset, maxInline: 6, knownType: map[string]int{}}
	ex.unit = &Unit{Name: unitName, U: u}
	return ex
}

// ---- a verification unit for one contracted function ----

type UnitOpts struct {
	ExtraRequires []string          // additional assumptions (spec text), e.g. a per-case path condition
	ExtraEnsures  map[string]string // label -> spec text, added to the contract's ensures
	SkipEnsures   map[string]bool
	NameSuffix    string
	Trace         bool      // record call/store/alloc events for per-case obligations
	TypeRename    [2]string // resolve type names in contracts with this prefix replaced (contracts reused for a sibling package)
	Setup         func(ex *Exec, fr *frame, st *State)
	AtExit        func(ex *Exec, fr *frame, g string, st *State, res []Val)
	AtBackEdge    func(ex *Exec, fr *frame, lr *loopRec, edge int, g string, st *State) // top function only: a path has reached a back edge of loop lr
}

// verifyFunc builds the unit until the set of heap keys it touches is stable: every key is
// registered before execution starts, so that havocs (calls, loops) cover keys first read later.
func (p *Program) verifyFunc(key string, opts *UnitOpts) (unit *Unit, err error) {
	prereg := map[string]string{}
	entered := map[int]bool{}
	for pass := 0; pass < 5; pass++ {
		var ent map[int]bool
		unit, ent, err = p.verifyFuncOnce(key, opts, prereg, entered)
		if unit == nil {
			return unit, err
		}
		grew := false
		for h := range ent {
			if !entered[h] {
				entered[h] = true
				grew = true
			}
		}
		for k, srt := range unit.U.keySorts {
			if isLocalKey(k) {
				continue
			}
			if _, ok := prereg[k]; !ok {
				prereg[k] = srt
				grew = true
			}
		}
		if !grew {
			return unit, err
		}
	}
	return unit, fmt.Errorf("%s: heap key set did not stabilise", key)
}

func (p *Program) verifyFuncOnce(key string, opts *UnitOpts, prereg map[string]string, entered map[int]bool) (unit *Unit, ent map[int]bool, err error) {
	fn := p.fns[key]
	if fn == nil {
		return nil, nil, fmt.Errorf("anchor-missing: function %s not found", key)
	}
	fc := p.db.Funcs[key]
	if fc == nil {
		// no contract: an empty one (units that only carry driver-generated obligations)
		pkg := ""
		if fn.Pkg != nil {
			pkg = fn.Pkg.Pkg.Path()
		}
		fc = &FuncContract{Key: key, Pkg: pkg, Loops: map[int][]Clause{}, Attrs: map[string]string{}}
	}
	if opts != nil && strings.HasPrefix(opts.NameSuffix, "/") {
		if sub, ok := fc.Cases[opts.NameSuffix[1:]]; ok {
			// merge the case section into a copy of the function's contract
			m := *fc
			m.Requires = append(append([]Clause{}, fc.Requires...), sub.Requires...)
			m.Assumes = append(append([]Clause{}, fc.Assumes...), sub.Assumes...)
			m.Ensures = append(append([]Clause{}, fc.Ensures...), sub.Ensures...)
			m.Lets = append(append([]Clause{}, fc.Lets...), sub.Lets...)
			m.Loops = map[int][]Clause{}
			for k, v := range fc.Loops {
				m.Loops[k] = v
			}
			for k, v := range sub.Loops {
				m.Loops[k] = append(append([]Clause{}, m.Loops[k]...), v...)
			}
			fc = &m
		}
	}
	if opts == nil {
		opts = &UnitOpts{}
	}
	ex := p.newExec(shortKey(key) + opts.NameSuffix)
	ex.unitSuffix = opts.NameSuffix
	ex.traceOn = opts.Trace
	ex.atBackEdge = opts.AtBackEdge
	ex.typeRename = opts.TypeRename
	ex.enteredPrev = entered
	ex.topContract = fc
	ex.entered = map[int]bool{}
	for k, srt := range prereg {
		ex.u.keySorts[k] = srt
	}
	defer func() {
		if r := recover(); r != nil {
			switch e := r.(type) {
			case execErr:
				err = fmt.Errorf("%s: %s", key, e.msg)
			case specErr:
				err = fmt.Errorf("%s: %s", key, e.msg)
			default:
				panic(r)
			}
			unit = ex.unit
			ent = ex.entered
		}
	}()
	u := ex.u
	fr := ex.newFrame(fn)
	fr.top = true
	fr.contract = fc
	st := newState()
	u.keySort("next", SInt)
	u.fact(app(">", u.get(st, "next"), "0"))
	var args []Val
	for _, prm := range fn.Params {
		v := ex.paramVal(prm.Name(), prm.Type(), st)
		fr.regs[prm] = v
		fr.params[prm.Name()] = v
		args = append(args, v)
		// what a non-nil pointer parameter to a slice, interface, pointer or map cell points to is a well-formed value of the
		// entry heap (type invariant of the pointee: e.g. a slice with capacity has an allocated array)
		if pt, ok := prm.Type().Underlying().(*types.Pointer); ok && v.T != "" {
			switch pt.Elem().Underlying().(type) {
			case *types.Slice, *types.Interface, *types.Pointer, *types.Map:
				if l := ex.locOf(v); l != nil && l.Kind == LCell {
					pv := u.load(st, l)
					pv.Typ = pt.Elem()
					if pv.T != "" {
						u.fact(implies(app("distinct", v.T, "0"), ex.wf(pv, st)))
					}
				}
			}
		}
	}
	fr.entry = st.clone()
	env := ex.specEnv(fr, st, nil)
	for _, l := range fc.Lets {
		v := env.eval(l.Expr)
		fr.specVars[l.Label] = v
		env.vars[l.Label] = v
	}
	for _, r := range fc.Requires {
		t, e := env.evalBool(r.Expr)
		if e != nil {
			return ex.unit, ex.entered, fmt.Errorf("%s requires: %v", key, e)
		}
		u.fact(t)
	}
	for _, a := range fc.Assumes {
		t, e := env.evalBool(a.Expr)
		if e != nil {
			return ex.unit, ex.entered, fmt.Errorf("%s assumes: %v", key, e)
		}
		u.fact(t)
		u.assume("data invariant assumed by " + shortKey(key) + opts.NameSuffix + ": " + a.Src)
	}
	for _, r := range opts.ExtraRequires {
		se, e := parseSpec(r)
		if e != nil {
			return ex.unit, ex.entered, e
		}
		t, e := env.evalBool(se)
		if e != nil {
			return ex.unit, ex.entered, fmt.Errorf("%s extra requires: %v", key, e)
		}
		u.fact(t)
	}
	if opts.Setup != nil {
		opts.Setup(ex, fr, st)
	}
	ex.setupEnd = len(u.decls)
	ex.curLoopFrom = -1
	g, s, res := ex.execBody(fr, st, "true")
	ex.curLoopFrom = -1
	post := ex.specEnv(fr, s, nil)
	ex.bindResults(post, fn.Signature, tupleOf(res, fn.Signature))
	for k, v := range fr.params {
		post.vars[k] = v // contracts talk about parameter values at entry (parameters are never reassigned in specs)
	}
	for i, e := range fc.Ensures {
		lbl := clauseLabel(e, i)
		if opts.SkipEnsures[lbl] {
			continue
		}
		t, er := post.evalBool(e.Expr)
		if er != nil {
			return ex.unit, ex.entered, fmt.Errorf("%s ensures %s: %v", key, lbl, er)
		}
		ex.oblige(fmt.Sprintf("%s%s#ensures:%s", shortFn(fn), opts.NameSuffix, lbl), "ensures", g, t, e.Src, ex.clauseWhere(e))
	}
	if fr.recovered != nil {
		// the exit after a recovered panic owes the same postconditions
		rpost := ex.specEnv(fr, fr.recovered.st, nil)
		ex.bindResults(rpost, fn.Signature, tupleOf(fr.recovered.res, fn.Signature))
		for k, v := range fr.params {
			rpost.vars[k] = v
		}
		for i, e := range fc.Ensures {
			lbl := clauseLabel(e, i)
			if opts.SkipEnsures[lbl] {
				continue
			}
			t, er := rpost.evalBool(e.Expr)
			if er != nil {
				return ex.unit, ex.entered, fmt.Errorf("%s ensures %s (recovered exit): %v", key, lbl, er)
			}
			ex.oblige(fmt.Sprintf("%s%s#ensures:%s.after_recover", shortFn(fn), opts.NameSuffix, lbl), "ensures", fr.recovered.guard, t, e.Src, ex.clauseWhere(e))
		}
	}
	var extra []string
	for l := range opts.ExtraEnsures {
		extra = append(extra, l)
	}
	sort.Strings(extra)
	for _, l := range extra {
		se, e := parseSpec(opts.ExtraEnsures[l])
		if e != nil {
			return ex.unit, ex.entered, e
		}
		t, e := post.evalBool(se)
		if e != nil {
			return ex.unit, ex.entered, fmt.Errorf("%s ensures %s: %v", key, l, e)
		}
		ex.oblige(fmt.Sprintf("%s%s#ensures:%s", shortFn(fn), opts.NameSuffix, l), "ensures", g, t, opts.ExtraEnsures[l], "")
	}
	if opts.AtExit != nil {
		opts.AtExit(ex, fr, g, s, res)
	}
	// frame: everything the body may write is covered by the modifies clause
	if fc.HasMod && !fc.Trusted {
		ex.frameObligations(fr, fc, g, s)
	}
	// canary: the exit must be reachable and the facts consistent there
	can := &Obligation{Name: shortFn(fn) + opts.NameSuffix + "#canary:exit-reachable", Kind: "canary", Guard: g, Goal: "false", NDecl: len(u.decls), Expect: Sat, Src: "postcondition false must not be provable"}
	ex.unit.Obls = append(ex.unit.Obls, can)
	return ex.unit, ex.entered, nil
}

func tupleOf(res []Val, sig *types.Signature) Val {
	switch len(res) {
	case 0:
		return Val{}
	case 1:
		return res[0]
	}
	return Val{Typ: sig.Results(), Tuple: res}
}

func (ex *Exec) paramVal(name string, t types.Type, st *State) Val {
	u := ex.u
	if isStruct(t) {
		stt := t.Underlying().(*types.Struct)
		v := Val{Typ: t}
		for i := 0; i < stt.NumFields(); i++ {
			v.Fields = append(v.Fields, ex.paramVal(name+"."+stt.Field(i).Name(), stt.Field(i).Type(), st))
		}
		return v
	}
	n := smtName("p$" + name)
	u.declareConst(n, sortOf(t))
	v := Val{T: n, Typ: t}
	u.fact(ex.wf(v, st))
	return v
}

// frameObligations: syntactic coverage of the body's write set by the modifies clause, plus
// object-precise frame conditions (only index r of H changes for `modifies r.f`).
func (ex *Exec) frameObligations(fr *frame, fc *FuncContract, g string, s *State) {
	u := ex.u
	written := map[string]bool{}
	ex.funcModKeysTop(fr, written)
	env := ex.specEnv(fr, fr.entry, nil)
	allowed := map[string]bool{"next": true}
	preciseAt := map[string][]string{}
	newObjects := false
	for _, it := range fc.Modifies {
		if strings.TrimSpace(it) == "newobjects" {
			newObjects = true
			continue
		}
		if aks, ok := ex.allButKeys(it, env); ok {
			for _, k := range aks {
				allowed[k] = true
				preciseAt[k] = append(preciseAt[k], "*")
			}
			continue
		}
		ks, pr := ex.modItem(it, env)
		for i, k := range ks {
			allowed[k] = true
			if pr != nil && pr[i] != "" {
				preciseAt[k] = append(preciseAt[k], pr[i])
			} else {
				preciseAt[k] = append(preciseAt[k], "*")
			}
		}
	}
	// an unmodelled call ("*" in the static write set) may have written anything: every heap key the execution
	// touched is then a candidate, whether or not some statement names it
	if written["*"] {
		for k := range s.vars {
			if strings.HasPrefix(k, "H$") || strings.HasPrefix(k, "A$") || strings.HasPrefix(k, "M$") || strings.HasPrefix(k, "MD$") || strings.HasPrefix(k, "C$") || strings.HasPrefix(k, "GV$") || strings.HasPrefix(k, "RF$") {
				written[k] = true
			}
		}
	}
	var ws []string
	for k := range written {
		ws = append(ws, k)
	}
	sort.Strings(ws)
	for _, k := range ws {
		if isLocalKey(k) || k == "*defer" {
			continue
		}
		if k == "*" {
			if !allowed["*"] {
				o := ex.oblige(fmt.Sprintf("%s%s#frame:unmodelled_call", shortFn(fr.fn), ex.unitSuffix), "frame", "true", "true", "an unmodelled call may write anything: every key touched on a path to the exit is checked against the modifies clause", "")
				o.Guard = "true"
			}
			continue
		}
		if newObjects && !allowed[k] {
			// keys whose term is still the entry constant were not written on any executed path
			if t, touched := s.vars[k]; !touched || t == smtName(k) {
				continue
			}
		}
		if newObjects && !allowed[k] && (strings.HasPrefix(k, "H$") || strings.HasPrefix(k, "A$") || strings.HasPrefix(k, "M$") || strings.HasPrefix(k, "MD$") || strings.HasPrefix(k, "C$") || k == "*new") {
			if k == "*new" {
				continue
			}
			// objects have references in (0, next); index 0 is nil, which no executing path can write through
			goal := fmt.Sprintf("(forall ((x!f Int)) (=> (and (< 0 x!f) (< x!f %s)) (= (select %s x!f) (select %s x!f))))", u.get(fr.entry, "next"), u.get(s, k), u.get(fr.entry, k))
			ex.oblige(fmt.Sprintf("%s%s#frame-new:%s", shortFn(fr.fn), ex.unitSuffix, k), "frame", g, goal, "only objects allocated by this call are written ("+k+")", "")
			continue
		}
		goal := "true"
		if !allowed[k] && !allowed["*"] {
			// the static write set over-approximates (a store through a pointer the static analysis cannot
			// resolve counts as a write to every cell of its type): a key whose term at exit is still the
			// entry constant was not written on any path that reaches the exit
			if t, touched := s.vars[k]; !touched || t == smtName(k) {
				continue
			}
			goal = "false"
		}
		o := ex.oblige(fmt.Sprintf("%s%s#frame:%s", shortFn(fr.fn), ex.unitSuffix, k), "frame", "true", goal, "modifies clause covers writes to "+k, "")
		o.Guard = "true"
	}
	var ks []string
	for k := range preciseAt {
		ks = append(ks, k)
	}
	sort.Strings(ks)
	for _, k := range ks {
		ats := preciseAt[k]
		if containsStr(ats, "*") {
			continue
		}
		if _, ok := u.keySorts[k]; !ok {
			continue
		}
		var ne []string
		for _, a := range ats {
			ne = append(ne, not(eq("x!f", a)))
		}
		goal := fmt.Sprintf("(forall ((x!f Int)) (=> %s (= (select %s x!f) (select %s x!f))))", and(ne...), u.get(s, k), u.get(fr.entry, k))
		ex.oblige(fmt.Sprintf("%s%s#frame-object:%s", shortFn(fr.fn), ex.unitSuffix, k), "frame", g, goal, "only the named object's "+k+" changes", "")
	}
}

func (ex *Exec) funcModKeysTop(fr *frame, keys map[string]bool) {
	for _, b := range fr.fn.Blocks {
		if !fr.visited[b] {
			continue // unreachable in this unit (other cases of a per-case unit)
		}
		for _, in := range b.Instrs {
			ex.instrModKeys(fr, in, keys, map[*ssa.Function]bool{})
		}
	}
}

// ---- queries ----

// symbolsOf tokenises an SMT line into the declared symbols it mentions (cached; call under u.mu or before the parallel phase).
func (u *Unit) symbolsOf(line string) []string {
	if u.symCache == nil {
		u.symCache = map[string][]string{}
	}
	if s, ok := u.symCache[line]; ok {
		return s
	}
	out := u.symbolsOfNoCache(line)
	u.symCache[line] = out
	return out
}

func (u *Unit) symbolsOfNoCache(line string) []string {
	var out []string
	seen := map[string]bool{}
	i := 0
	for i < len(line) {
		c := line[i]
		if c == '|' {
			j := strings.IndexByte(line[i+1:], '|')
			if j < 0 {
				break
			}
			tok := line[i : i+j+2]
			if _, ok := u.U.declared[tok]; ok && !seen[tok] {
				seen[tok] = true
				out = append(out, tok)
			}
			i += j + 2
			continue
		}
		if c == '(' || c == ')' || c == ' ' || c == '\n' || c == '\t' {
			i++
			continue
		}
		j := i
		for j < len(line) && line[j] != '(' && line[j] != ')' && line[j] != ' ' && line[j] != '\n' && line[j] != '\t' {
			j++
		}
		tok := line[i:j]
		if _, ok := u.U.declared[tok]; ok && !seen[tok] {
			seen[tok] = true
			out = append(out, tok)
		}
		i = j
	}
	return out
}

// slice keeps the declarations and the facts relevant to the goal: a fact is relevant if it
// mentions no array-sorted symbol at all, or an array-sorted symbol already relevant; a relevant
// fact makes all its symbols relevant. Dropping facts only weakens the hypotheses (sound).
// declInfo: what slicing needs to know about one declaration, computed once per unit.
type declInfo struct {
	kind  int // 0 other, 1 define-fun / combo (defines name), 2 assert, 3 declare-fun, 4 declare-const
	name  string
	syms  []string
	arrs  []string
	fresh bool // mentions a fresh scalar constant (result/havoc) — set per symbol below
}

func (u *Unit) prepare() {
	u.mu.Lock()
	defer u.mu.Unlock()
	if u.info != nil {
		return
	}
	decls := u.U.decls
	info := make([]declInfo, len(decls))
	isArr := func(sym string) bool { return strings.HasPrefix(u.U.declared[sym], "(Array") }
	for i, d := range decls {
		di := &info[i]
		combo := strings.HasPrefix(d, "(declare-const ") && strings.Contains(d, "\n(assert ")
		switch {
		case strings.HasPrefix(d, "(define-fun "):
			di.kind, di.name = 1, splitTop(d[1 : len(d)-1])[1]
		case combo:
			first := d[:strings.Index(d, "\n")]
			di.kind, di.name = 1, splitTop(first[1 : len(first)-1])[1]
		case strings.HasPrefix(d, "(assert "):
			di.kind = 2
		case strings.HasPrefix(d, "(declare-fun "):
			di.kind = 3
		case strings.HasPrefix(d, "(declare-const "):
			di.kind, di.name = 4, splitTop(d[1 : len(d)-1])[1]
		}
		di.syms = u.symbolsOf(d)
		for _, sy := range di.syms {
			if isArr(sy) {
				di.arrs = append(di.arrs, sy)
			}
		}
	}
	u.freshScalar = map[string]bool{}
	for sy := range u.U.consts {
		if !isArr(sy) && !strings.HasPrefix(sy, "p$") && !strings.HasPrefix(sy, "next") && !strings.HasPrefix(sy, "str!") {
			u.freshScalar[sy] = true
		}
	}
	u.defAt = map[string]int{}
	for i := range info {
		if info[i].kind == 1 {
			u.defAt[info[i].name] = i
		}
	}
	u.info = info
}

// slice keeps the declarations and the facts relevant to the goal: a fact is relevant if it
// mentions no array-sorted symbol at all, or an array-sorted symbol already relevant, or a relevant
// fresh scalar; a relevant fact makes all its symbols relevant. Dropping facts only weakens the
// hypotheses (sound). Read-only after prepare().
func (u *Unit) slice(o *Obligation, loopLocal bool) []bool {
	n := o.NDecl
	keep := make([]bool, n)
	rel := map[string]bool{}
	var work []string
	add := func(sym string) {
		if !rel[sym] {
			rel[sym] = true
			work = append(work, sym)
		}
	}
	for _, s := range u.symbolsOfNoCache(o.Guard + " " + o.Goal) {
		add(s)
	}
	var facts []int
	for i := 0; i < n; i++ {
		switch u.info[i].kind {
		case 2:
			if loopLocal && i >= o.SetupEnd && i < o.LoopFrom {
				continue // facts about the state before the loop: the invariant summarises them
			}
			facts = append(facts, i)
		case 3:
			keep[i] = true
		}
	}
	for changed := true; changed; {
		changed = false
		for len(work) > 0 {
			s := work[len(work)-1]
			work = work[:len(work)-1]
			if di, ok := u.defAt[s]; ok && di < n && !keep[di] {
				keep[di] = true
				for _, t := range u.info[di].syms {
					add(t)
				}
			}
		}
		for _, fi := range facts {
			if keep[fi] {
				continue
			}
			f := &u.info[fi]
			relevant := len(f.arrs) == 0
			for _, a := range f.arrs {
				if rel[a] {
					relevant = true
					break
				}
			}
			if !relevant {
				for _, sy := range f.syms {
					if rel[sy] && u.freshScalar[sy] {
						relevant = true
						break
					}
				}
			}
			if relevant {
				keep[fi] = true
				changed = true
				for _, t := range f.syms {
					add(t)
				}
			}
		}
	}
	for i := 0; i < n; i++ {
		if u.info[i].kind == 4 && rel[u.info[i].name] {
			keep[i] = true
		}
	}
	return keep
}

// query renders the obligation; dialect "z3" uses lambda-defined arrays where available.
func (u *Unit) query(o *Obligation, withModel bool, dialect string, loopLocal bool) string {
	u.prepare()
	var b strings.Builder
	b.WriteString("; unit " + u.Name + "\n; obligation " + o.Name + "\n")
	if o.Src != "" {
		b.WriteString("; " + strings.ReplaceAll(o.Src, "\n", " ") + "\n")
	}
	b.WriteString(u.U.prelude())
	keep := u.slice(o, loopLocal)
	for i, d := range u.U.decls[:o.NDecl] {
		if !keep[i] {
			continue
		}
		if alt, ok := u.U.altZ3[i]; ok && dialect == "z3" {
			d = alt
		}
		b.WriteString(d)
		b.WriteString("\n")
	}
	b.WriteString("(assert (not " + implies(o.Guard, o.Goal) + "))\n(check-sat)\n")
	if withModel {
		b.WriteString("(get-model)\n")
	}
	return b.String()
}

var emitNanos int64

type OblResult struct {
	Obl     *Obligation
	Unit    *Unit
	Res     SolverResult
	File    string
	OK      bool
	Note    string
	AllRuns map[string]Verdict
}

type RunOpts struct {
	Timeout  int
	Seed     int
	OutDir   string
	Parallel int
	CrossAll bool
	Known    map[string]bool // obligations recorded as known findings
}

func runObligations(units []*Unit, ro RunOpts) []*OblResult {
	type job struct {
		u *Unit
		o *Obligation
		i int
	}
	var jobs []job
	seenName := map[string]int{}
	for _, u := range units {
		for _, o := range u.Obls {
			// obligation names are file names and lock-file keys: keep them unique
			seenName[o.Name]++
			if n := seenName[o.Name]; n > 1 {
				o.Name = fmt.Sprintf("%s~%d", o.Name, n)
			}
			jobs = append(jobs, job{u, o, len(jobs)})
		}
	}
	results := make([]*OblResult, len(jobs))
	var wg sync.WaitGroup
	// CPU slots: stage 1 of an obligation runs one solver process, stage 2 races the remaining ones
	capacity := ro.Parallel * 4
	slots := newWeighted(capacity)
	inflight := make(chan struct{}, capacity*2)
	for _, j := range jobs {
		wg.Add(1)
		inflight <- struct{}{}
		go func(j job) {
			defer wg.Done()
			defer func() { <-inflight }()
			r := &OblResult{Obl: j.o, Unit: j.u}
			results[j.i] = r
			// structural obligations with literal goals need no solver
			if j.o.Kind == "frame" && j.o.Guard == "true" && (j.o.Goal == "true" || j.o.Goal == "false") {
				r.OK = j.o.Goal == "true"
				r.Res = SolverResult{Verdict: Unsat, Solver: "structural"}
				if !r.OK {
					r.Res.Verdict = Sat
				}
				return
			}
			file := filepath.Join(ro.OutDir, sanitize(j.o.Name)+".smt2")
			r.File = file
			emit := func(file string, loopLocal bool) (string, string, bool) {
				t0 := time.Now()
				defer func() { atomic.AddInt64(&emitNanos, int64(time.Since(t0))) }()
				if err := writeFile(file, j.u.query(j.o, true, "generic", loopLocal)); err != nil {
					r.Note = err.Error()
					return "", "", false
				}
				zfile := strings.TrimSuffix(file, ".smt2") + ".z3.smt2"
				if len(j.u.U.altZ3) > 0 {
					if err := writeFile(zfile, j.u.query(j.o, true, "z3", loopLocal)); err != nil {
						r.Note = err.Error()
						return "", "", false
					}
				} else {
					zfile = file
				}
				return file, zfile, true
			}
			// staged discharge: one fast solver first, then the race of all back ends
			staged := func(f, z string, to int, retry bool) SolverResult {
				q := to
				if q > 2 {
					q = 2
				}
				var first SolverResult
				// units whose obligations the quick solver keeps missing go straight to the race
				skip := atomic.LoadInt32(&j.u.stage1Miss) >= 2 && atomic.LoadInt32(&j.u.stage1Miss) > atomic.LoadInt32(&j.u.stage1Hit)
				if !skip {
					slots.acquire(1)
					first = runSolvers(f, z, q, ro.Seed, []string{"z3-new"})
					slots.release(1)
					if first.Verdict != Unknown || to <= q {
						atomic.AddInt32(&j.u.stage1Hit, 1)
						return first
					}
					atomic.AddInt32(&j.u.stage1Miss, 1)
				}
				// the race of all back ends, then again under two other seeds: a query that is hard under one
				// seed and easy under another must not raise an alarm
				total := first.Ms
				var rest SolverResult
				for try, sd := range []int{ro.Seed, ro.Seed + 7, ro.Seed + 13} {
					tt := to
					if try > 0 {
						if !retry {
							break
						}
						tt = to / 2
					}
					slots.acquire(4)
					rest = runSolvers(f, z, tt, sd, nil)
					slots.release(4)
					total += rest.Ms
					if rest.Verdict != Unknown {
						break
					}
				}
				rest.Ms = total
				return rest
			}
			if j.o.Expect == Sat {
				// canaries: a short run of one solver is enough; unsat is the only bad answer
				f, z, ok := emit(file, false)
				if !ok {
					return
				}
				slots.acquire(1)
				r.Res = runSolvers(f, z, 2, ro.Seed, []string{"z3-new"})
				slots.release(1)
				r.OK = r.Res.Verdict != Unsat
				return
			}
			if j.o.LoopFrom >= 0 {
				// first attempt: the loop body from its havoced state only (dropping facts is sound)
				lf, lz, ok := emit(strings.TrimSuffix(file, ".smt2")+".loop.smt2", true)
				if ok {
					lr := staged(lf, lz, 3, false) // a quick attempt only
					if lr.Verdict == Unsat {
						r.Res = lr
						r.File = lf
						r.OK = true
						return
					}
				}
			}
			_, zfile, ok := emit(file, false)
			if !ok {
				return
			}
			if ro.Known[j.o.Name] {
				// expected to stay undischarged (a recorded finding): one short race is enough
				r.Res = staged(file, zfile, 5, false)
			} else {
				r.Res = staged(file, zfile, ro.Timeout, true)
			}
			r.OK = r.Res.Verdict == Unsat
			if ro.CrossAll {
				slots.acquire(4)
				r.AllRuns = runSolversAll(file, zfile, ro.Timeout, ro.Seed)
				slots.release(4)
			}
		}(j)
	}
	wg.Wait()
	return results
}

// weighted is a counting semaphore with multi-unit acquire.
type weighted struct {
	mu   sync.Mutex
	cond *sync.Cond
	free int
}

func newWeighted(n int) *weighted {
	w := &weighted{free: n}
	w.cond = sync.NewCond(&w.mu)
	return w
}

func (w *weighted) acquire(n int) {
	w.mu.Lock()
	for w.free < n {
		w.cond.Wait()
	}
	w.free -= n
	w.mu.Unlock()
}

func (w *weighted) release(n int) {
	w.mu.Lock()
	w.free += n
	w.mu.Unlock()
	w.cond.Broadcast()
}

func sanitize(s string) string {
	r := strings.NewReplacer("/", "_", "*", "", "(", "", ")", "", " ", "_", "#", "__", ":", "_", "$", "_", "|", "_", "@", "_at_", "<", "_", ">", "_")
	s = r.Replace(s)
	if len(s) > 180 {
		s = s[:180] + fmt.Sprintf("_%08x", hashString(s))
	}
	return s
}
