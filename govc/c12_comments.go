package main

// C12, clause "comments are in source order": the restorer records comment groups in r.comments in
// the order it meets them, and the cursor only moves forward, so source order holds iff every group
// is registered while the cursor is still at its first comment. Obligation at every store into
// FileRestorer.comments (event trace of the symbolic execution): the group appended is a new object
// and is either still empty (addCommentField fills it with a comment at `slash`, which callers must
// pass as the current cursor) or holds exactly one comment positioned at the current cursor.
// Existing comments are never repositioned (frame obligations on heap(ast.Comment.Slash)).

import (
	"fmt"
	"strings"
)

func commentsRegistrationOpts() *UnitOpts {
	opts := &UnitOpts{Trace: true}
	opts.AtExit = func(ex *Exec, frm *frame, g string, st *State, res []Val) {
		rv, ok := frm.params["r"]
		if !ok {
			return
		}
		n := 0
		for i := range ex.trace {
			ev := &ex.trace[i]
			if ev.Kind != "store" || ev.Depth != 0 || ev.Loc == nil || ev.Loc.Kind != LField {
				continue
			}
			if !strings.HasSuffix(ev.Loc.Owner, "FileRestorer") || strings.Join(ev.Loc.Path, ".") != "comments" {
				continue
			}
			n++
			env := &SpecEnv{ex: ex, vars: map[string]Val{}, cur: ev.St, old: frm.entry, pkg: frm.fn.Pkg.Pkg}
			env.vars["r"] = rv
			last := "r.comments[len(r.comments)-1]"
			text := fmt.Sprintf("len(r.comments) >= 1 && !wasAllocated(%s) && (len(%s.List) == 0 || (len(%s.List) == 1 && %s.List[0].Slash == r.cursor))", last, last, last, last)
			ex.obligeSpec(env, fmt.Sprintf("%s#comments:registered_when_positioned@%d", shortFn(frm.fn), n), "schema", ev.Guard, text, nil)
		}
	}
	return opts
}
