package main

// C03, comment attachment (decorator-fragment.go): every comment fragment ends up attached to a
// decoration point, and none is attached twice. The argument is write-once on the Attached field:
// attachToDecoration is the only function that stores to it (structural, below), it demands that
// what it is given is unattached and free of repeats (its precondition, discharged at each of its
// call sites in link), and link's first pass leaves no comment fragment unattached (its
// postcondition). The sweeps that feed it (findDecoration, findIndentedComments) are under
// contract for exactly what those call sites need.

import (
	"fmt"
	"go/types"
	"strings"

	"golang.org/x/tools/go/ssa"
)

var attachUnits = []string{"link", "findDecoration", "findIndentedComments", "attachToDecoration",
	"fragment", "addNodeFragments", "addDecorationFragment", "addTokenFragment", "addStringFragment", "addBadFragment", "addCommentFragment", "addNewlineFragment"}

var fragmentImpls = []string{"tokenFragment", "stringFragment", "commentFragment", "newlineFragment", "decorationFragment", "badFragment"}

func buildAttachment(p *Program, tier string) ([]*Unit, []UnitError) {
	var keys []string
	for _, n := range attachUnits {
		if wantUnit("(*decorator.fileDecorator)." + n) {
			keys = append(keys, fd(n))
		}
	}
	// the methods of the fragment interface: the interface contract (assumed at dynamic calls) is discharged on every implementer
	for _, t := range fragmentImpls {
		for _, m := range []string{"Position", "Newline"} {
			if wantUnit("(*decorator." + t + ")." + m) {
				keys = append(keys, pkgDecorator+".(*"+t+")."+m)
			}
		}
	}
	for _, n := range []string{"appendDecoration", "appendNewLine"} {
		if wantUnit("decorator." + n) {
			keys = append(keys, pkgDecorator+"."+n)
		}
	}
	// DecorateNode: the fragment list starts empty and what fragment() leaves is what link() requires
	if wantUnit("(*decorator.Decorator).DecorateNode") {
		keys = append(keys, pkgDecorator+".(*Decorator).DecorateNode")
	}
	us, es := buildFuncUnits(p, keys, nil)
	// structural: the only stores to an Attached field of a fragment sit in attachToDecoration
	ex := p.newExec("attachment-writers")
	unit := ex.unit
	n, bad := 0, 0
	where := ""
	for _, fn := range allFuncs(p, pkgDecorator) {
		unit.addFunc(fn.String())
		for _, b := range fn.Blocks {
			for _, in := range b.Instrs {
				st, ok := in.(*ssa.Store)
				if !ok {
					continue
				}
				fa, ok := st.Addr.(*ssa.FieldAddr)
				if !ok {
					continue
				}
				sty := deref(fa.X.Type())
				if sty == nil || !isStruct(sty) {
					continue
				}
				tn := typeKey(sty)
				if !strings.HasSuffix(tn, "commentFragment") && !strings.HasSuffix(tn, "newlineFragment") {
					continue
				}
				if fieldNameOf(sty, fa.Field) != "Attached" {
					continue
				}
				if isFreshAlloc(fa.X) {
					continue // initialising a fragment that is being built
				}
				n++
				if fn.Name() != "attachToDecoration" {
					bad++
					where = ex.pos(in.Pos())
				}
			}
		}
	}
	goal := "true"
	if bad > 0 || n == 0 {
		goal = "false"
	}
	o := ex.oblige("decorator#attach:only_attachToDecoration_stores_Attached", "frame", "true", goal,
		fmt.Sprintf("%d stores to commentFragment.Attached / newlineFragment.Attached, %d of them outside attachToDecoration", n, bad), where)
	o.Guard = "true"
	// every implementer of fragment carries the interface's clauses
	missing := ""
	nImpl := 0
	if ipkg := p.pkgTypes(pkgDecorator); ipkg != nil {
		if obj := ipkg.Scope().Lookup("fragment"); obj != nil {
			if it, ok := obj.Type().Underlying().(*types.Interface); ok {
				for _, name := range ipkg.Scope().Names() {
					tn, ok := ipkg.Scope().Lookup(name).(*types.TypeName)
					if !ok || tn.Type() == obj.Type() {
						continue
					}
					pt := types.NewPointer(tn.Type())
					if !types.Implements(pt, it) && !types.Implements(tn.Type(), it) {
						continue
					}
					nImpl++
					for _, m := range []string{"Position", "Newline"} {
						ic := p.db.Funcs[funcKey(pkgDecorator, false, "fragment", m)]
						mc := p.db.Funcs[funcKey(pkgDecorator, true, name, m)]
						if ic == nil || mc == nil || strings.Join(ic.Modifies, ",") != strings.Join(mc.Modifies, ",") || len(ic.Ensures) != len(mc.Ensures) || !mc.HasMod {
							missing += " " + name + "." + m
						}
					}
				}
			}
		}
	}
	goal = "true"
	if missing != "" || nImpl == 0 {
		goal = "false"
	}
	o2 := ex.oblige("decorator#iface:fragment_implementers_carry_the_interface_contract", "frame", "true", goal,
		fmt.Sprintf("%d types implement fragment; methods without the interface's clauses:%s", nImpl, missing), "")
	o2.Guard = "true"
	return append(us, unit), es
}

func isAttachObligation(n string) bool {
	for _, u := range attachUnits {
		if strings.Contains(n, "(*decorator.fileDecorator)."+u+"#") {
			return true
		}
	}
	for _, t := range fragmentImpls {
		if strings.Contains(n, "(*decorator."+t+").") {
			return true
		}
	}
	if strings.Contains(n, "(*decorator.fileDecorator).fragment$") {
		return true
	}
	if strings.HasPrefix(n, "(*decorator.Decorator).DecorateNode#call:decorator.(*fileDecorator).fragment:") || strings.HasPrefix(n, "(*decorator.Decorator).DecorateNode#call:decorator.(*fileDecorator).link:") {
		return true
	}
	if strings.HasPrefix(n, "decorator.appendDecoration#") || strings.HasPrefix(n, "decorator.appendNewLine#") {
		return true
	}
	return strings.Contains(n, "#attach:") || strings.Contains(n, "#iface:")
}

func fieldNameOf(st types.Type, i int) string {
	s, ok := st.Underlying().(*types.Struct)
	if !ok || i >= s.NumFields() {
		return ""
	}
	return s.Field(i).Name()
}

func (p *Program) pkgTypes(path string) *types.Package {
	if pk := p.pkgs[path]; pk != nil {
		return pk.Types
	}
	return nil
}
