package main

// Memory model: Go types -> SMT sorts, locations, symbolic state.
//
//   Ref (pointer to struct, map, closure)  Int, 0 = nil, allocation counter "next"
//   interface value                        Iface = mkI(ityp Int, iref Int)
//   slice                                  Slice = mkS(sarr Int, soff Int, slen Int, scap Int)
//   string                                 Str (uninterpreted) with strlen
//   struct field through pointer           one array per (struct type, leaf path): H$<S>$<path> : Int -> sort
//   slice element                          A$<elem> : Int(arr) -> Int(index) -> sort
//   map                                    M$<K>$<V> : Int -> K -> V  and  MD$<K>$<V> : Int -> K -> Bool
//   pointer to a non-struct cell           C$<T> : Int -> sort
//   integers are mathematical

import (
	"fmt"
	"go/types"
	"sort"
	"strings"
)

const (
	SInt   = "Int"
	SBool  = "Bool"
	SStr   = "Str"
	SSlice = "Slice"
	SIface = "Iface"
)

const nilIface = "(mkI 0 0)"
const nilSlice = "(mkS 0 0 0 0)"

// Val is a symbolic Go value.
type Val struct {
	T         string     // SMT term ("" for struct values and tuples)
	Typ       types.Type // static Go type (may be nil in specs)
	Loc       *Loc       // for pointers whose target location is known
	Fields    []Val      // struct value, in field order
	Tuple     []Val      // multi-value
	Refl      *reflVal   // reflect.Value handles (reflectmodel.go)
	ReflElems []Val      // a []reflect.Value built in place (variadic operand of reflect.Append)
	PtrAlts   []PtrAlt   // a pointer that is one of several known addresses (or nil), by incoming path
}

// PtrAlt: under Guard the pointer is V (V.Loc set for an address, V.T == "0" for nil, or an ordinary reference term).
type PtrAlt struct {
	Guard string
	V     Val
}

type LocKind int

const (
	LLocal LocKind = iota // local cell (an Alloc that does not escape)
	LField                // field (leaf path) of a struct object identified by a Ref term
	LElem                 // element of a backing array
	LCell                 // generic cell addressed by a Ref term (pointer to non-struct)
)

type Loc struct {
	Kind  LocKind
	Key   string   // LLocal: state key
	Base  string   // LField: Ref term of the object; LElem: array id term; LCell: ref term
	Owner string   // LField: struct type key
	Path  []string // LField: field path inside Owner
	Idx   string   // LElem: absolute index term
	Typ   types.Type
}

// ---- type keys and sorts ----

func typeKey(t types.Type) string {
	s := types.TypeString(t, func(p *types.Package) string { return p.Name() })
	return s
}

func structKey(t types.Type) string {
	if n, ok := t.(*types.Named); ok {
		return typeKey(n)
	}
	if n, ok := t.(*types.Alias); ok {
		return structKey(types.Unalias(n))
	}
	return "anon!" + fmt.Sprintf("%08x", hashString(typeKey(t)))
}

func hashString(s string) uint32 {
	var h uint32 = 2166136261
	for i := 0; i < len(s); i++ {
		h ^= uint32(s[i])
		h *= 16777619
	}
	return h
}

func isStruct(t types.Type) bool {
	_, ok := t.Underlying().(*types.Struct)
	return ok
}

func deref(t types.Type) types.Type {
	if p, ok := t.Underlying().(*types.Pointer); ok {
		return p.Elem()
	}
	return nil
}

// sortOf gives the SMT sort of a non-struct Go type.
func sortOf(t types.Type) string {
	switch u := t.Underlying().(type) {
	case *types.Basic:
		switch {
		case u.Info()&types.IsBoolean != 0:
			return SBool
		case u.Info()&types.IsString != 0:
			return SStr
		case u.Info()&types.IsInteger != 0:
			return SInt
		case u.Kind() == types.UnsafePointer, u.Kind() == types.UntypedNil:
			return SInt
		case u.Info()&types.IsFloat != 0:
			return "Real"
		}
		return SInt
	case *types.Pointer, *types.Map, *types.Chan, *types.Signature:
		return SInt
	case *types.Slice:
		return SSlice
	case *types.Interface:
		return SIface
	case *types.Array:
		// an array value is its row of elements (value semantics); behind a pointer it is the row of the backing-array id
		if isRowArray(t) {
			return arr1(sortOf(u.Elem()))
		}
		return SInt // arrays of structs / arrays / reflect values: only ever used behind a pointer (the backing-array id)
	case *types.Struct:
		panic("sortOf(struct) " + typeKey(t))
	case *types.Tuple:
		panic("sortOf(tuple)")
	}
	panic("sortOf: " + typeKey(t))
}

// isRowArray: an array type whose values are modelled as rows (Array Int elem).
func isRowArray(t types.Type) bool {
	at, ok := t.Underlying().(*types.Array)
	if !ok {
		return false
	}
	if isStruct(at.Elem()) || isReflectValue(at.Elem()) {
		return false
	}
	if _, nested := at.Elem().Underlying().(*types.Array); nested {
		return false
	}
	return true
}

func zeroTerm(t types.Type) string {
	if isRowArray(t) {
		at := t.Underlying().(*types.Array)
		return "((as const " + arr1(sortOf(at.Elem())) + ") " + zeroTerm(at.Elem()) + ")"
	}
	switch sortOf(t) {
	case SInt:
		return "0"
	case SBool:
		return "false"
	case SStr:
		return "str!empty"
	case SSlice:
		return nilSlice
	case SIface:
		return nilIface
	case "Real":
		return "0.0"
	}
	panic("zeroTerm")
}

// elemKey names the backing-array family of a slice element type.
func elemKey(t types.Type) string {
	switch u := t.Underlying().(type) {
	case *types.Basic:
		return u.Name()
	case *types.Pointer:
		return "*" + typeKey(u.Elem()) // one family per pointee type (Go's type system keeps them apart)
	case *types.Interface:
		if n, ok := t.(*types.Named); ok {
			return typeKey(n) // one family per named interface type
		}
		return "iface"
	case *types.Slice:
		return "slice"
	case *types.Struct:
		return structKey(t)
	case *types.Map, *types.Signature, *types.Chan:
		return "ptr"
	}
	return typeKey(t)
}

// leaf describes one non-struct field reachable through nested struct values.
type leaf struct {
	Path []string
	Typ  types.Type
}

func leaves(t types.Type) []leaf {
	st, ok := t.Underlying().(*types.Struct)
	if !ok {
		return []leaf{{nil, t}}
	}
	var out []leaf
	for i := 0; i < st.NumFields(); i++ {
		f := st.Field(i)
		if isStruct(f.Type()) {
			for _, l := range leaves(f.Type()) {
				out = append(out, leaf{append([]string{f.Name()}, l.Path...), l.Typ})
			}
		} else {
			out = append(out, leaf{[]string{f.Name()}, f.Type()})
		}
	}
	return out
}

func fieldType(t types.Type, name string) (types.Type, int) {
	st := t.Underlying().(*types.Struct)
	for i := 0; i < st.NumFields(); i++ {
		if st.Field(i).Name() == name {
			return st.Field(i).Type(), i
		}
	}
	return nil, -1
}

// ---- universe: sort declarations collected while building a unit ----

type Universe struct {
	decls     []string          // ordered declarations / definitions / facts
	altZ3     map[int]string    // decl index -> replacement text for the z3 dialect (lambda-defined arrays)
	declared  map[string]string // symbol -> sort (for consts) or signature
	fresh     int
	typeIDs   map[string]int
	typeByID  []types.Type
	strLits   map[string]string
	strOrder  []string
	patLits   map[string]bool // literals used as the pattern of hasPrefix/strContains
	embTypes  map[string]bool // struct types that are canonicalised as separate objects when nested
	embTags   map[string]int
	keySorts  map[string]string // state key -> sort
	consts    map[string]bool   // symbols introduced by declare-const (usable in patterns)
	assumes   []string          // human-readable list of modelling assumptions hit
	implCache map[string][]types.Type
	allNamed  []*types.Named // candidate dynamic types for interface membership
}

func newUniverse() *Universe {
	return &Universe{consts: map[string]bool{}, altZ3: map[int]string{}, declared: map[string]string{}, typeIDs: map[string]int{}, strLits: map[string]string{},
		patLits: map[string]bool{}, embTypes: map[string]bool{}, embTags: map[string]int{}, keySorts: map[string]string{}, implCache: map[string][]types.Type{}}
}

func (u *Universe) emit(s string) { u.decls = append(u.decls, s) }

func (u *Universe) declareConst(name, sort string) {
	if _, ok := u.declared[name]; ok {
		return
	}
	u.declared[name] = sort
	u.consts[name] = true
	u.emit(fmt.Sprintf("(declare-const %s %s)", name, sort))
}

// patternable returns a constant symbol equal to term (quantifier patterns must not contain ite).
func (u *Universe) patternable(term, sort string) string {
	if u.consts[term] {
		return term
	}
	n := u.freshConst("pat", sort)
	u.fact(eq(n, term))
	return n
}

func (u *Universe) declareFun(name string, args []string, ret string) {
	if _, ok := u.declared[name]; ok {
		return
	}
	u.declared[name] = "fun"
	u.emit(fmt.Sprintf("(declare-fun %s (%s) %s)", name, strings.Join(args, " "), ret))
}

func (u *Universe) freshName(hint string) string {
	u.fresh++
	return smtName(fmt.Sprintf("%s@%d", hint, u.fresh))
}

func (u *Universe) freshConst(hint, sort string) string {
	n := u.freshName(hint)
	u.declareConst(n, sort)
	return n
}

// define introduces a named abbreviation for a term (keeps queries linear in size).
func (u *Universe) define(hint, sort, term string) string {
	if len(term) < 24 && !strings.Contains(term, " ") {
		return term
	}
	n := u.freshName(hint)
	u.declared[n] = sort
	u.emit(fmt.Sprintf("(define-fun %s () %s %s)", n, sort, term))
	return n
}

// defineArrayDual introduces an array constant that is characterised by quantified facts in the
// generic dialect (cvc5) and defined by a lambda in the z3 dialect. The lambda must satisfy the facts.
func (u *Universe) defineArrayDual(hint, sort, lambda string, facts []string) string {
	n := u.freshName(hint)
	u.declared[n] = sort
	u.consts[n] = true
	var b strings.Builder
	fmt.Fprintf(&b, "(declare-const %s %s)", n, sort)
	for _, f := range facts {
		b.WriteString("\n(assert " + strings.ReplaceAll(f, "$SELF", n) + ")")
	}
	u.altZ3[len(u.decls)] = fmt.Sprintf("(define-fun %s () %s %s)", n, sort, strings.ReplaceAll(lambda, "$SELF", n))
	u.emit(b.String())
	return n
}

func (u *Universe) fact(f string) {
	if f == "true" {
		return
	}
	u.emit("(assert " + f + ")")
}

func (u *Universe) typeID(t types.Type) int {
	k := typeKey(t)
	if id, ok := u.typeIDs[k]; ok {
		return id
	}
	id := len(u.typeIDs) + 1
	u.typeIDs[k] = id
	u.typeByID = append(u.typeByID, t)
	return id
}

func (u *Universe) strLit(s string) string {
	if s == "" {
		return "str!empty"
	}
	if n, ok := u.strLits[s]; ok {
		return n
	}
	n := fmt.Sprintf("str!%d", len(u.strLits)+1)
	u.strLits[s] = n
	u.strOrder = append(u.strOrder, s)
	return n
}

// implementers lists the known concrete types (pointer-to-named and named) that implement iface.
func (u *Universe) implementers(iface *types.Interface, key string) []types.Type {
	if v, ok := u.implCache[key]; ok {
		return v
	}
	var out []types.Type
	for _, n := range u.allNamed {
		if _, isI := n.Underlying().(*types.Interface); isI {
			continue
		}
		if types.Implements(n, iface) {
			out = append(out, n)
		} else if p := types.NewPointer(n); types.Implements(p, iface) {
			out = append(out, p)
		}
	}
	u.implCache[key] = out
	return out
}

// implementsTerm: the dynamic type id term t denotes a type implementing iface.
func (u *Universe) implementsTerm(t string, it types.Type) string {
	iface := it.Underlying().(*types.Interface)
	if iface.NumMethods() == 0 {
		return not(eq(t, "0"))
	}
	impls := u.implementers(iface, typeKey(it))
	var ds []string
	for _, c := range impls {
		ds = append(ds, eq(t, intLit(int64(u.typeID(c)))))
	}
	if len(ds) == 0 {
		u.assume("interface " + typeKey(it) + " has no known implementers; membership left uninterpreted")
		f := smtName("impl$" + typeKey(it))
		u.declareFun(f, []string{SInt}, SBool)
		return app(f, t)
	}
	return or(ds...)
}

func (u *Universe) assume(s string) {
	for _, a := range u.assumes {
		if a == s {
			return
		}
	}
	u.assumes = append(u.assumes, s)
}

// prelude: fixed sorts, datatypes, and string literal facts. Must be printed before decls.
func (u *Universe) prelude() string {
	var b strings.Builder
	b.WriteString("(set-option :produce-models true)\n(set-logic ALL)\n")
	b.WriteString("(declare-sort Str 0)\n")
	b.WriteString("(declare-datatypes ((Iface 0)) (((mkI (ityp Int) (iref Int)))))\n")
	b.WriteString("(declare-datatypes ((Slice 0)) (((mkS (sarr Int) (soff Int) (slen Int) (scap Int)))))\n")
	b.WriteString("(declare-fun strlen (Str) Int)\n(assert (forall ((s Str)) (! (>= (strlen s) 0) :pattern ((strlen s)))))\n")
	b.WriteString("(declare-const str!empty Str)\n(assert (= (strlen str!empty) 0))\n")
	b.WriteString("(assert (forall ((s Str)) (! (=> (= (strlen s) 0) (= s str!empty)) :pattern ((strlen s)))))\n")
	b.WriteString("(declare-fun sconcat (Str Str) Str)\n")
	b.WriteString("(assert (forall ((a Str) (b Str)) (! (= (strlen (sconcat a b)) (+ (strlen a) (strlen b))) :pattern ((sconcat a b)))))\n")
	b.WriteString("(declare-fun strlt (Str Str) Bool)\n")
	// Go's < on strings is a strict total order (assumed axioms of the uninterpreted string sort)
	b.WriteString("(assert (forall ((a Str)) (! (not (strlt a a)) :pattern ((strlt a a)))))\n")
	b.WriteString("(assert (forall ((a Str) (b Str) (c Str)) (! (=> (and (strlt a b) (strlt b c)) (strlt a c)) :pattern ((strlt a b) (strlt b c)))))\n")
	b.WriteString("(assert (forall ((a Str) (b Str)) (! (or (= a b) (strlt a b) (strlt b a)) :pattern ((strlt a b)))))\n")
	b.WriteString("(declare-fun hasPrefix (Str Str) Bool)\n(declare-fun strContains (Str Str) Bool)\n")
	b.WriteString("(declare-fun reftag (Int) Int)\n(assert (= (reftag 0) 0))\n")
	b.WriteString("(declare-fun idx (Int Int) Int)\n(assert (forall ((o Int) (j Int)) (! (= (idx o j) (+ o j)) :pattern ((idx o j)))))\n")
	// string literals: pairwise distinct, known length
	names := []string{"str!empty"}
	for _, s := range u.strOrder {
		n := u.strLits[s]
		names = append(names, n)
		fmt.Fprintf(&b, "(declare-const %s Str) ; %q\n(assert (= (strlen %s) %d))\n", n, s, n, len(s))
	}
	if len(names) > 1 {
		b.WriteString("(assert (distinct " + strings.Join(names, " ") + "))\n")
	}
	// literal/literal prefix and containment facts (decided here, concretely)
	lits := append([]string{""}, u.strOrder...)
	var pats []string
	for _, s := range u.strOrder {
		if u.patLits[u.strLits[s]] {
			pats = append(pats, s)
		}
	}
	for _, a := range lits {
		for _, p := range pats {
			an, pn := u.litName(a), u.litName(p)
			if strings.HasPrefix(a, p) {
				fmt.Fprintf(&b, "(assert (hasPrefix %s %s))\n", an, pn)
			} else {
				fmt.Fprintf(&b, "(assert (not (hasPrefix %s %s)))\n", an, pn)
			}
			if strings.Contains(a, p) {
				fmt.Fprintf(&b, "(assert (strContains %s %s))\n", an, pn)
			} else {
				fmt.Fprintf(&b, "(assert (not (strContains %s %s)))\n", an, pn)
			}
		}
	}
	// prefix axioms relating literals: hasPrefix(s,p) => strlen s >= strlen p; two literal prefixes of
	// equal length that differ exclude each other; a prefix that contains q makes s contain q.
	b.WriteString("(declare-fun strAt (Str Int) Int)\n")
	for _, p := range pats {
		pn := u.litName(p)
		for i := 0; i < len(p) && i < 4; i++ {
			fmt.Fprintf(&b, "(assert (= (strAt %s %d) %d))\n", pn, i, p[i])
			fmt.Fprintf(&b, "(assert (forall ((s Str)) (! (=> (hasPrefix s %s) (= (strAt s %d) %d)) :pattern ((hasPrefix s %s)))))\n", pn, i, p[i], pn)
		}
		fmt.Fprintf(&b, "(assert (forall ((s Str)) (! (=> (hasPrefix s %s) (>= (strlen s) %d)) :pattern ((hasPrefix s %s)))))\n", pn, len(p), pn)
		fmt.Fprintf(&b, "(assert (forall ((s Str)) (! (=> (strContains s %s) (>= (strlen s) %d)) :pattern ((strContains s %s)))))\n", pn, len(p), pn)
		for _, q := range pats {
			if p == q {
				continue
			}
			qn := u.litName(q)
			n := len(p)
			if len(q) < n {
				n = len(q)
			}
			if p[:n] != q[:n] {
				fmt.Fprintf(&b, "(assert (forall ((s Str)) (! (not (and (hasPrefix s %s) (hasPrefix s %s))) :pattern ((hasPrefix s %s) (hasPrefix s %s)))))\n", pn, qn, pn, qn)
			}
		}
	}
	// embedded-object tags
	var ek []string
	for k := range u.embTags {
		ek = append(ek, k)
	}
	sort.Strings(ek)
	for _, k := range ek {
		f := smtName("emb$" + k)
		g := smtName("unemb$" + k)
		fmt.Fprintf(&b, "(declare-fun %s (Int) Int)\n(declare-fun %s (Int) Int)\n", f, g)
		fmt.Fprintf(&b, "(assert (forall ((x Int)) (! (and (= (%s (%s x)) x) (= (reftag (%s x)) %d)) :pattern ((%s x)))))\n", g, f, f, u.embTags[k], f)
	}
	return b.String()
}

func (u *Universe) markPattern(term string) {
	if strings.HasPrefix(term, "str!") {
		u.patLits[term] = true
	}
}

func (u *Universe) litName(s string) string {
	if s == "" {
		return "str!empty"
	}
	return u.strLits[s]
}

func (u *Universe) embFun(owner string, path []string) string {
	k := owner + "$" + strings.Join(path, ".")
	if _, ok := u.embTags[k]; !ok {
		u.embTags[k] = len(u.embTags) + 1
	}
	return smtName("emb$" + k)
}

// ---- state ----

type State struct {
	vars map[string]string
	ptrs map[string]Val // address-valued locals
}

func newState() *State { return &State{vars: map[string]string{}} }

func (s *State) clone() *State {
	n := newState()
	for k, v := range s.vars {
		n.vars[k] = v
	}
	if s.ptrs != nil {
		n.ptrs = map[string]Val{}
		for k, v := range s.ptrs {
			n.ptrs[k] = v
		}
	}
	return n
}

// arraySort of a state key, registered at first use.
func (u *Universe) keySort(key, sort string) {
	if old, ok := u.keySorts[key]; ok && old != sort {
		panic(fmt.Sprintf("key %s: sort %s vs %s", key, old, sort))
	}
	u.keySorts[key] = sort
}

// get returns the current term of a heap-like key, defaulting to its entry-state constant.
func (u *Universe) get(s *State, key string) string {
	if t, ok := s.vars[key]; ok {
		return t
	}
	sort, ok := u.keySorts[key]
	if !ok {
		panic("get of unregistered key " + key)
	}
	n := smtName(key)
	u.declareConst(n, sort)
	return n
}

func (u *Universe) set(s *State, key, sort, term string) {
	u.keySort(key, sort)
	if strings.HasPrefix(sort, "(Array") && strings.HasPrefix(term, "(ite ") {
		// a real constant (not a macro): quantifier patterns must not contain ite
		n := u.freshConst(key, sort)
		u.fact(eq(n, term))
		s.vars[key] = n
		return
	}
	s.vars[key] = u.define(key, sort, term)
}

func (u *Universe) havoc(s *State, key string) string {
	sort, ok := u.keySorts[key]
	if !ok {
		panic("havoc of unregistered key " + key)
	}
	n := u.freshConst(key, sort)
	s.vars[key] = n
	return n
}

func arr1(s string) string { return "(Array Int " + s + ")" }
func arr2(s string) string { return "(Array Int (Array Int " + s + "))" }

func heapKey(owner string, path []string) string {
	return "H$" + owner + "$" + strings.Join(path, ".")
}

// canonLoc rewrites a field location so that nested struct values of "embedded-object" types
// are addressed as objects of their own: a.iter.index -> (emb a).index.
func (u *Universe) canonLoc(l *Loc, ownerT types.Type) (*Loc, types.Type) {
	if l.Kind != LField {
		return l, ownerT
	}
	t := ownerT
	base, owner := l.Base, l.Owner
	var path []string
	for i, f := range l.Path {
		ft, _ := fieldType(t, f)
		if ft == nil {
			panic(fmt.Sprintf("no field %s in %s", f, typeKey(t)))
		}
		path = append(path, f)
		if isStruct(ft) && u.embTypes[structKey(ft)] && i < len(l.Path) {
			base = app(u.embFun(owner, path), base)
			owner = structKey(ft)
			path = nil
			t = ft
			ownerT = ft
			continue
		}
		t = ft
	}
	return &Loc{Kind: LField, Base: base, Owner: owner, Path: path, Typ: l.Typ}, ownerT
}

// load reads a location in state s.
func (u *Universe) load(s *State, l *Loc) Val {
	t := l.Typ
	if isStruct(t) {
		st := t.Underlying().(*types.Struct)
		v := Val{Typ: t}
		for i := 0; i < st.NumFields(); i++ {
			v.Fields = append(v.Fields, u.load(s, u.sub(l, st.Field(i).Name(), st.Field(i).Type())))
		}
		return v
	}
	srt := sortOf(t)
	switch l.Kind {
	case LLocal:
		tm, ok := s.vars[l.Key]
		if !ok {
			panic("load of dead local " + l.Key)
		}
		return Val{T: tm, Typ: t}
	case LField:
		key := heapKey(l.Owner, l.Path)
		u.keySort(key, arr1(srt))
		return Val{T: sel(u.get(s, key), l.Base), Typ: t}
	case LElem:
		key := "A$" + l.Owner
		if len(l.Path) > 0 {
			key += "$" + strings.Join(l.Path, ".")
		}
		u.keySort(key, arr2(srt))
		return Val{T: sel(sel(u.get(s, key), l.Base), l.Idx), Typ: t}
	case LCell:
		if isRowArray(t) {
			at := t.Underlying().(*types.Array)
			key := "A$" + elemKey(at.Elem())
			u.keySort(key, arr2(sortOf(at.Elem())))
			return Val{T: sel(u.get(s, key), l.Base), Typ: t}
		}
		key := "C$" + elemKey(t)
		u.keySort(key, arr1(srt))
		return Val{T: sel(u.get(s, key), l.Base), Typ: t}
	}
	panic("load")
}

// sub addresses a field of a struct-typed location.
func (u *Universe) sub(l *Loc, field string, ft types.Type) *Loc {
	switch l.Kind {
	case LField:
		n := &Loc{Kind: LField, Base: l.Base, Owner: l.Owner, Path: append(append([]string{}, l.Path...), field), Typ: ft}
		return n
	case LElem:
		return &Loc{Kind: LElem, Base: l.Base, Owner: l.Owner, Path: append(append([]string{}, l.Path...), field), Idx: l.Idx, Typ: ft}
	case LLocal:
		// a struct-typed local that does not escape: one cell per leaf
		return &Loc{Kind: LLocal, Key: l.Key + "." + field, Typ: ft}
	}
	panic("sub of non-struct location kind")
}

func (u *Universe) storeLoc(s *State, l *Loc, v Val) {
	t := l.Typ
	if isStruct(t) {
		st := t.Underlying().(*types.Struct)
		if len(v.Fields) != st.NumFields() {
			panic("store struct arity " + typeKey(t))
		}
		for i := 0; i < st.NumFields(); i++ {
			u.storeLoc(s, u.sub(l, st.Field(i).Name(), st.Field(i).Type()), v.Fields[i])
		}
		return
	}
	srt := sortOf(t)
	switch l.Kind {
	case LLocal:
		u.keySort(l.Key, srt)
		s.vars[l.Key] = v.T
	case LField:
		key := heapKey(l.Owner, l.Path)
		u.keySort(key, arr1(srt))
		u.set(s, key, arr1(srt), store(u.get(s, key), l.Base, v.T))
	case LElem:
		key := "A$" + l.Owner
		if len(l.Path) > 0 {
			key += "$" + strings.Join(l.Path, ".")
		}
		u.keySort(key, arr2(srt))
		cur := u.get(s, key)
		u.set(s, key, arr2(srt), store(cur, l.Base, store(sel(cur, l.Base), l.Idx, v.T)))
	case LCell:
		if isRowArray(t) {
			at := t.Underlying().(*types.Array)
			key := "A$" + elemKey(at.Elem())
			srt2 := arr2(sortOf(at.Elem()))
			u.keySort(key, srt2)
			u.set(s, key, srt2, store(u.get(s, key), l.Base, v.T))
			return
		}
		key := "C$" + elemKey(t)
		u.keySort(key, arr1(srt))
		u.set(s, key, arr1(srt), store(u.get(s, key), l.Base, v.T))
	default:
		panic("store")
	}
}

// zeroVal builds the zero value of a type.
func zeroVal(t types.Type) Val {
	if isStruct(t) {
		st := t.Underlying().(*types.Struct)
		v := Val{Typ: t}
		for i := 0; i < st.NumFields(); i++ {
			v.Fields = append(v.Fields, zeroVal(st.Field(i).Type()))
		}
		return v
	}
	return Val{T: zeroTerm(t), Typ: t}
}

// alloc returns a fresh Ref and bumps the allocation counter.
func (u *Universe) alloc(s *State, guard string) string {
	u.keySort("next", SInt)
	cur := u.get(s, "next")
	r := u.define("ref", SInt, cur)
	u.set(s, "next", SInt, plus(cur, "1"))
	u.fact(eq(app("reftag", r), "0"))
	return r
}

// slice helpers
func sArr(s string) string { return proj("sarr", s) }
func sOff(s string) string { return proj("soff", s) }
func sLen(s string) string { return proj("slen", s) }
func sCap(s string) string { return proj("scap", s) }

// cellIdx: absolute index of element i of a slice with offset off (a function symbol so that
// quantified facts about elements have arithmetic-free triggers).
func cellIdx(off, i string) string {
	if off == "0" {
		return i
	}
	return app("idx", off, i)
}
func mkS(a, o, l, c string) string {
	return app("mkS", a, o, l, c)
}

// proj simplifies projections of literal constructors.
func proj(f, s string) string {
	if strings.HasPrefix(s, "(mkS ") || strings.HasPrefix(s, "(mkI ") {
		parts := splitTop(s[1 : len(s)-1])
		idx := map[string]int{"sarr": 1, "soff": 2, "slen": 3, "scap": 4, "ityp": 1, "iref": 2}[f]
		if idx > 0 && idx < len(parts) {
			return parts[idx]
		}
	}
	return app(f, s)
}

// splitTop splits an s-expression body at top-level whitespace.
func splitTop(s string) []string {
	var out []string
	d := 0
	start := -1
	inBar := false
	for i, c := range s {
		if inBar {
			if c == '|' {
				inBar = false
			}
			continue
		}
		switch {
		case c == '|':
			inBar = true
			if start < 0 {
				start = i
			}
		case c == '(':
			if start < 0 {
				start = i
			}
			d++
		case c == ')':
			d--
		case c == ' ' || c == '\n' || c == '\t':
			if d == 0 && start >= 0 {
				out = append(out, s[start:i])
				start = -1
			}
		default:
			if start < 0 {
				start = i
			}
		}
	}
	if start >= 0 {
		out = append(out, s[start:])
	}
	return out
}

func mkI(t, r string) string     { return app("mkI", t, r) }
func iTyp(s string) string       { return proj("ityp", s) }
func iRef(s string) string       { return proj("iref", s) }
func isNilIface(s string) string { return eq(iTyp(s), "0") }
