package f1
import ("testing";"go/ast";"go/token";"github.com/dave/dst/decorator")
func TestF9(t *testing.T){
	f,err:=decorator.Parse("package a\n\nfunc f(m map[int]int) {\n\tfor k := range m {\n\t\t_ = k\n\t}\n}\n")
	if err!=nil{t.Fatal(err)}
	r:=decorator.NewRestorer(); r.Extras=true
	af,err:=r.RestoreFile(f)
	if err!=nil{t.Fatal(err)}
	tf:=r.Fset.File(af.Pos())
	lo,hi:=token.Pos(tf.Base()),token.Pos(tf.Base()+tf.Size())
	bad:=0
	seen:=map[ast.Node]bool{}
	var visit func(n ast.Node)
	visit=func(n ast.Node){ ast.Inspect(n,func(x ast.Node)bool{ if x==nil||seen[x]{return x!=nil&&false}; seen[x]=true
		if x.Pos().IsValid() && (x.Pos()<lo||x.Pos()>hi) { bad++; t.Logf("%T at %d outside [%d,%d]",x,x.Pos(),lo,hi) }
		if id,ok:=x.(*ast.Ident);ok&&id.Obj!=nil { if d,ok:=id.Obj.Decl.(ast.Node);ok{visit(d)} }
		return true}) }
	visit(af)
	if bad>0 {t.Errorf("%d positions outside the registered file",bad)}
}
