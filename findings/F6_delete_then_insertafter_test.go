package f1
import ("testing";"strings";"github.com/dave/dst";"github.com/dave/dst/decorator";"github.com/dave/dst/dstutil")
func names(f *dst.File) string { var out []string; for _,d:=range f.Decls { out=append(out,d.(*dst.GenDecl).Specs[0].(*dst.ValueSpec).Names[0].Name) }; return strings.Join(out,",") }
func TestF6(t *testing.T){
	f,err:=decorator.Parse("package p\n\nvar x int\nvar y int\nvar z int\n")
	if err!=nil{t.Fatal(err)}
	var visited []string
	dstutil.Apply(f,func(c *dstutil.Cursor)bool{
		if g,ok:=c.Node().(*dst.GenDecl);ok{
			n:=g.Specs[0].(*dst.ValueSpec).Names[0].Name
			visited=append(visited,n)
			if n=="x" {
				c.Delete()
				c.InsertAfter(&dst.GenDecl{Tok:g.Tok,Specs:[]dst.Spec{&dst.ValueSpec{Names:[]*dst.Ident{dst.NewIdent("x1")},Type:dst.NewIdent("int")}}})
			}
		}
		return true},nil)
	t.Logf("list after: %s; visited: %v",names(f),visited)
	// the inserted node x1 must not be visited and the original y must be
	if strings.Join(visited,",")!="x,y,z" { t.Errorf("visited %v, want [x y z]",visited) }
}
